"""pyvc - a small verification-condition generator for a subset of Python.

The verified text is the *real* source of /repo/src/flexstack, re-read with ``ast`` on every
run.  Contracts are sidecar files in /verif/contracts.  See /verif/DESIGN.md.
"""
