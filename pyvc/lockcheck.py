"""Ownership (guarded_by) and lock-order obligations of DESIGN §1.11, generated from the real source text.

One obligation per access of a guarded field outside ``__init__``: the access must be lexically inside
``with <owner>.<lock>:`` in the same function, or the function must be declared ``holds`` (then every call site of that
function in the class must be inside the lock).  Locks in this code base are only taken by ``with`` statements (checked),
so lexical enclosure is exactly 'the lock is held at the access'.  One obligation per class for the acquisition order:
the relation 'lock B is acquired (directly, or by a method called) while lock A is held' must be acyclic.
"""
from __future__ import annotations

import ast
from typing import Dict, List


class LockSpec:
    def __init__(self, cls_qual, guarded: Dict[str, str], atomic_read_ok=(), holds=(), props=(), owner="self",
                 external_modules=(), note="", init_phase=(), guarded_foreign=None, snapshot_order=()):
        self.cls_qual = cls_qual
        self.guarded = dict(guarded)            # field -> lock field
        self.atomic_read_ok = set(atomic_read_ok)   # fields whose single unlocked READ of an immutable value is allowed
        self.holds = dict(holds) if isinstance(holds, dict) else {h: None for h in holds}   # method -> lock it runs under
        self.props = list(props)
        self.external_modules = list(external_modules)
        self.note = note
        self.init_phase = set(init_phase)        # methods that run during construction only (called from __init__)
        # attribute of OTHER objects (any receiver but self) that this class only touches under one of its locks,
        # e.g. Router reads / writes <LocTE>.ls_pending only inside _ls_lock (it is the "lookup in progress" decision state)
        self.guarded_foreign = dict(guarded_foreign or {})
        # (a, b, why): every entry of a refers to an entry of b that was added before it (and b only shrinks after a does), so
        # a method that looks at both in separate critical sections must read a first: reading b first can miss the entry
        # of b that a later-read entry of a depends on
        self.snapshot_order = list(snapshot_order)


def _with_locks(node: ast.With):
    out = []
    for it in node.items:
        e = it.context_expr
        if isinstance(e, ast.Attribute) and isinstance(e.value, ast.Name):
            out.append((e.value.id, e.attr))
    return out


class _Visitor(ast.NodeVisitor):
    def __init__(self, spec: LockSpec, fname: str, held0=()):
        self.spec = spec
        self.fname = fname
        self.held = list(held0)
        self.accesses = []      # (field, lineno, kind, ok)
        self.edges = []         # (lock_a, lock_b, lineno)
        self.calls_held = []    # (method, tuple(held), lineno)
        self.calls_direct = []  # the same, calls inside nested functions / lambdas (which run later) left out
        self.reacquired = []    # (lock, lineno): `with self.lock:` lexically inside `with self.lock:`
        self.raw_acquire = []
        self.block = [0]        # ids of the enclosing critical sections (0 = none); every `with` gets a fresh id
        self.nblocks = 0
        self.taint = {}         # local name -> {(guarded field, critical section id it was read in)}
        self.stale_writes = []  # (field, lineno, read block, write block)
        self.foreign = []       # (attr, lineno, kind, ok, lock)
        self.reads_in = {}      # guarded field -> [(critical section id, enclosing ids, lineno)] where it was read
        self.split_claims = []  # (field, removal lineno, earlier read lineno)
        self.alias = {}         # local name -> guarded field it is a live (uncopied) view of
        self.decisions = []     # (guarded field, critical section id): an early exit was decided on that snapshot
        self.if_taint = []      # taints of the enclosing `if` tests
        self.check_then_act = []    # (field, lineno, decision block)
        self.in_nested = 0

    # ---- read-modify-write of a guarded field must happen inside ONE critical section
    def _taint_of(self, expr):
        out = set()
        for n in ast.walk(expr):
            if isinstance(n, ast.Call) and isinstance(n.func, ast.Attribute) and isinstance(n.func.value, ast.Name) \
                    and n.func.value.id == "self" and n.func.attr in getattr(self, "method_reads", {}):
                # the value returned by an own method that reads a guarded field in its OWN critical section is a
                # snapshot taken in a separate critical section
                self.ncalls = getattr(self, "ncalls", 0) + 1
                for fld in self.method_reads[n.func.attr]:
                    # ... unless the caller already holds that field's lock: then it is part of the current section
                    out.add((fld, self.block[-1] if self.spec.guarded[fld] in self.held else -self.ncalls))
            if isinstance(n, ast.Attribute) and isinstance(n.value, ast.Name) and n.value.id == "self" \
                    and n.attr in self.spec.guarded and isinstance(n.ctx, ast.Load):
                out.add((n.attr, self.block[-1]))
            elif isinstance(n, ast.Name) and isinstance(n.ctx, ast.Load):
                out |= self.taint.get(n.id, set())
        return out

    VIEWS = {"values", "keys", "items"}

    def _live_view_of(self, e):
        """guarded field that ``e`` is an uncopied reference to (the container itself or a dict view of it)"""
        if isinstance(e, ast.Call) and isinstance(e.func, ast.Attribute) and e.func.attr in self.VIEWS and not e.args:
            e = e.func.value
        else:
            if not (isinstance(e, ast.Attribute) and e.attr in getattr(self, "containers", ())):
                e = None        # a bare reference is a live view only of a mutable container; scalars / frozen records are snapshots
        if isinstance(e, ast.Attribute) and isinstance(e.value, ast.Name) and e.value.id == "self" and e.attr in self.spec.guarded:
            return e.attr
        return None

    def visit_Name(self, node):
        if isinstance(node.ctx, ast.Load) and node.id in self.alias:
            fld = self.alias[node.id]
            lock = self.spec.guarded[fld]
            if lock not in self.held or self.in_nested:
                self.accesses.append((fld, node.lineno, f"read-through-live-view:{node.id}", False))

    @staticmethod
    def _has_early_exit(stmts):
        for s in stmts:
            for n in ast.walk(s):
                if isinstance(n, (ast.Return, ast.Continue, ast.Break, ast.Raise)):
                    return True
        return False

    def visit_If(self, node):
        t = {(f, b) for f, b in self._taint_of(node.test) if b != 0}
        self.visit(node.test)
        self.if_taint.append(t)
        for s in node.body:
            self.visit(s)
        for s in node.orelse:
            self.visit(s)
        self.if_taint.pop()
        if t and (self._has_early_exit(node.body) or self._has_early_exit(node.orelse)):
            self.decisions.extend(t)

    def _note_write(self, fld, lineno):
        cur = self.block[-1]
        pend = list(self.decisions)
        for t in self.if_taint:
            pend.extend(t)
        for f2, blk in pend:
            if f2 == fld and blk != cur and blk not in self.block:
                self.check_then_act.append((fld, lineno, blk))
                return

    def _assign(self, targets, value, lineno, elementwise=False):
        t = self._taint_of(value)
        live = None if elementwise else self._live_view_of(value)
        for tg in targets:
            if isinstance(tg, ast.Name):
                if self.if_taint:
                    # assigned on one branch only: the value after the join may still be the earlier one, and which one it
                    # is depends on the test
                    self.taint[tg.id] = self.taint.get(tg.id, set()) | set(t) | {x for ts in self.if_taint for x in ts}
                else:
                    self.taint[tg.id] = set(t)
                if live is not None:
                    self.alias[tg.id] = live
                else:
                    self.alias.pop(tg.id, None)
            elif isinstance(tg, (ast.Tuple, ast.List)):
                self._assign(tg.elts, value, lineno, True)
            elif isinstance(tg, ast.Attribute) and isinstance(tg.value, ast.Name) and tg.value.id == "self" \
                    and tg.attr in self.spec.guarded:
                for fld, blk in t:
                    if fld == tg.attr and blk != self.block[-1] and blk not in self.block:
                        self.stale_writes.append((fld, lineno, blk, self.block[-1]))
                self._note_write(tg.attr, lineno)

    def visit_Assign(self, node):
        self._assign(node.targets, node.value, node.lineno)
        self.generic_visit(node)

    def visit_AnnAssign(self, node):
        if node.value is not None:
            self._assign([node.target], node.value, node.lineno)
        self.generic_visit(node)

    def visit_For(self, node):
        self._assign([node.target], node.iter, node.lineno, True)
        self.generic_visit(node)

    def visit_With(self, node):
        locks = _with_locks(node)
        for owner, lk in locks:
            for h in self.held:
                if h != lk:
                    self.edges.append((h, lk, node.lineno))
                elif owner == "self":
                    self.reacquired.append((lk, node.lineno))
        self.held.extend(lk for owner, lk in locks if owner == "self")
        self.nblocks += 1
        self.block.append(self.nblocks)
        for s in node.body:
            self.visit(s)
        self.block.pop()
        for owner, lk in locks:
            if owner == "self":
                self.held.pop()
        for it in node.items:
            self.visit(it.context_expr)

    REMOVERS = {"pop", "remove", "discard", "popitem", "__delitem__"}

    def _note_read(self, fld, lineno):
        self.reads_in.setdefault(fld, []).append((self.block[-1], tuple(self.block), lineno))

    def _note_removal(self, fld, lineno):
        cur = self.block[-1]
        if cur == 0:
            return
        for blk, chain, line in self.reads_in.get(fld, []):
            if blk != 0 and blk != cur and blk not in self.block and cur not in chain:
                self.split_claims.append((fld, lineno, line))
                return

    def visit_Attribute(self, node):
        if isinstance(node.value, ast.Name) and node.value.id == "self" and node.attr in self.spec.guarded \
                and isinstance(node.ctx, ast.Load):
            self._note_read(node.attr, node.lineno)
        if node.attr in self.spec.guarded_foreign and not (isinstance(node.value, ast.Name) and node.value.id == "self"):
            lock = self.spec.guarded_foreign[node.attr]
            kind = "write" if isinstance(node.ctx, (ast.Store, ast.Del)) else "read"
            self.foreign.append((node.attr, node.lineno, kind, lock in self.held, lock))
        if isinstance(node.value, ast.Name) and node.value.id == "self" and node.attr in self.spec.guarded:
            lock = self.spec.guarded[node.attr]
            kind = "write" if isinstance(node.ctx, (ast.Store, ast.Del)) else "read"
            ok = lock in self.held
            if not ok and kind == "read" and node.attr in self.spec.atomic_read_ok:
                ok = True
                kind = "atomic-read"
            self.accesses.append((node.attr, node.lineno, kind, ok))
        self.generic_visit(node)

    MUTATORS = {"pop", "remove", "discard", "add", "append", "insert", "update", "setdefault", "popitem", "extend", "__setitem__", "__delitem__"}

    def _stale_mutation(self, fld, args, lineno):
        t = set()
        for a in args:
            t |= self._taint_of(a)
        for f2, blk in t:
            if f2 == fld and blk != self.block[-1] and blk not in self.block and blk != 0:
                self.stale_writes.append((fld, lineno, blk, self.block[-1]))

    def visit_Subscript(self, node):
        if isinstance(node.ctx, (ast.Store, ast.Del)) and isinstance(node.value, ast.Attribute) \
                and isinstance(node.value.value, ast.Name) and node.value.value.id == "self" and node.value.attr in self.spec.guarded:
            self._stale_mutation(node.value.attr, [node.slice], node.lineno)
            self._note_write(node.value.attr, node.lineno)
            if isinstance(node.ctx, ast.Del):
                self._note_removal(node.value.attr, node.lineno)
        self.generic_visit(node)

    def visit_Call(self, node):
        f = node.func
        if isinstance(f, ast.Attribute) and f.attr in ("append", "add", "extend", "insert", "update", "setdefault") \
                and isinstance(f.value, ast.Name) and f.value.id != "self":
            # a local container filled element by element from a snapshot carries the snapshot's taint
            t = set()
            for a in list(node.args) + [k.value for k in node.keywords]:
                t |= self._taint_of(a)
            if t:
                self.taint[f.value.id] = self.taint.get(f.value.id, set()) | t
        if isinstance(f, ast.Attribute) and f.attr in self.MUTATORS and isinstance(f.value, ast.Attribute) \
                and isinstance(f.value.value, ast.Name) and f.value.value.id == "self" and f.value.attr in self.spec.guarded:
            self._stale_mutation(f.value.attr, list(node.args) + [k.value for k in node.keywords], node.lineno)
            self._note_write(f.value.attr, node.lineno)
            if f.attr in self.REMOVERS:
                self._note_removal(f.value.attr, node.lineno)
        if isinstance(f, ast.Attribute) and isinstance(f.value, ast.Name) and f.value.id == "self":
            self.calls_held.append((f.attr, tuple(self.held), node.lineno))
            if not self.in_nested:
                self.calls_direct.append((f.attr, tuple(self.held), node.lineno))
        if isinstance(f, ast.Attribute) and f.attr in ("acquire", "release"):
            self.raw_acquire.append(node.lineno)
        self.generic_visit(node)

    def visit_FunctionDef(self, node):      # nested functions: analysed with no lock held
        saved = self.held
        self.held = []
        self.in_nested += 1
        self.generic_visit(node)
        self.in_nested -= 1
        self.held = saved

    visit_Lambda = visit_FunctionDef


def check(repo, spec: LockSpec):
    """returns list of obligation dicts {name, status, detail}"""
    ci = repo.class_by_qual(spec.cls_qual)
    out = []
    acquires: Dict[str, set] = {}      # method -> locks it acquires itself
    per_method = {}
    method_reads = {}
    for mname, fn in ci.methods.items():
        rd = set()
        for n in ast.walk(fn):
            if isinstance(n, ast.Attribute) and isinstance(n.value, ast.Name) and n.value.id == "self" \
                    and n.attr in spec.guarded and isinstance(n.ctx, ast.Load):
                rd.add(n.attr)
        if rd and any(isinstance(n, ast.Return) and n.value is not None for n in ast.walk(fn)):
            method_reads[mname] = rd
    containers = set()
    if "__init__" in ci.methods:
        for n in ast.walk(ci.methods["__init__"]):
            val = n.value if isinstance(n, (ast.Assign, ast.AnnAssign)) else None
            tgs = n.targets if isinstance(n, ast.Assign) else [n.target] if isinstance(n, ast.AnnAssign) else []
            if isinstance(val, (ast.Dict, ast.List, ast.Set)) or (isinstance(val, ast.Call) and isinstance(val.func, ast.Name)
                                                                  and val.func.id in ("dict", "list", "set", "deque", "OrderedDict", "defaultdict")):
                containers |= {t.attr for t in tgs if isinstance(t, ast.Attribute)}
    for mname, fn in ci.methods.items():
        held0 = [spec.holds[mname]] if mname in spec.holds and spec.holds[mname] else []
        v = _Visitor(spec, mname, held0)
        v.method_reads = method_reads
        v.containers = containers
        for s in fn.body:
            v.visit(s)
        per_method[mname] = v
        acquires[mname] = {b for a, b, _ in v.edges} | set()
        for node in ast.walk(fn):
            if isinstance(node, ast.With):
                for owner, lk in _with_locks(node):
                    if owner == "self":
                        acquires[mname].add(lk)
    # locks a method acquires directly or through own methods it calls synchronously (closures / timer callbacks run later)
    trans = {m: set(a) for m, a in acquires.items()}
    trans_path = {(m, a): [m] for m, acq in acquires.items() for a in acq}
    changed = True
    while changed:
        changed = False
        for m, v in per_method.items():
            for callee, _, _ in v.calls_direct:
                for a in list(trans.get(callee, ())):
                    if a not in trans[m]:
                        trans[m].add(a)
                        trans_path[(m, a)] = [m] + trans_path.get((callee, a), [callee])
                        changed = True
    reentrant = set()
    init = ci.methods.get("__init__")
    if init is not None:
        for n in ast.walk(init):
            if isinstance(n, ast.Assign) and isinstance(n.value, ast.Call) and "RLock" in ast.dump(n.value.func):
                for tg in n.targets:
                    if isinstance(tg, ast.Attribute):
                        reentrant.add(tg.attr)
    # ownership obligations
    for ip in spec.init_phase:
        callers = [m for m, v in per_method.items() if any(c == ip for c, _, _ in v.calls_held)]
        ok = callers == ["__init__"] or callers == []
        out.append({"name": f"{spec.cls_qual}.{ip}/construction-phase-only", "line": 0, "status": "proved" if ok else "refuted",
                    "kind": "ownership", "detail": f"{ip} is called only from __init__" if ok else f"{ip} is also called from {callers}"})
    for mname, v in per_method.items():
        if mname == "__init__" or mname in spec.init_phase:
            continue
        for fld, line, kind, ok in v.accesses:
            name = f"{spec.cls_qual}.{mname}/guarded_by:{fld}@{kind}"
            out.append({"name": name, "line": line, "status": "proved" if ok else "refuted", "kind": "ownership",
                        "detail": f"{kind} of self.{fld} at line {line} " +
                                  (f"under {spec.guarded[fld]}" if ok and kind != "atomic-read" else
                                   "single read of an immutable value (allowed)" if ok else
                                   f"is NOT inside `with self.{spec.guarded[fld]}:`")})
        for attr, line, kind, ok, lock in v.foreign:
            out.append({"name": f"{spec.cls_qual}.{mname}/guarded_by:{attr}@{kind}(foreign)", "line": line,
                        "status": "proved" if ok else "refuted", "kind": "ownership",
                        "detail": f"{kind} of <object>.{attr} at line {line} " + (f"under {lock}" if ok else f"is NOT inside `with self.{lock}:`")})
        for fld, line, rline in v.split_claims:
            out.append({"name": f"{spec.cls_qual}.{mname}/claim-and-remove-in-one-critical-section:{fld}", "line": line,
                        "status": "refuted", "kind": "ownership",
                        "detail": f"an entry of self.{fld} is removed at line {line} in a critical section separate from the one "
                                  f"(line {rline}) that examined self.{fld}: another thread can claim or cancel the same entry in between"})
        for fld, line, rb, wb in v.stale_writes:
            out.append({"name": f"{spec.cls_qual}.{mname}/read-modify-write-in-one-critical-section:{fld}", "line": line,
                        "status": "refuted", "kind": "ownership",
                        "detail": f"self.{fld} is assigned at line {line} from a value read from self.{fld} in an earlier, separate "
                                  f"critical section: an update made by another thread in between is lost"})
        if not v.stale_writes and any(k == "write" for _, _, k, _ in v.accesses):
            out.append({"name": f"{spec.cls_qual}.{mname}/read-modify-write-in-one-critical-section", "line": 0,
                        "status": "proved", "kind": "ownership",
                        "detail": "no guarded field is assigned from a snapshot of itself taken in another critical section"})
        for fld, line, blk in v.check_then_act:
            out.append({"name": f"{spec.cls_qual}.{mname}/check-then-act-in-one-critical-section:{fld}", "line": line,
                        "status": "refuted", "kind": "ownership",
                        "detail": f"self.{fld} is written at line {line} in a critical section separate from the one in which the "
                                  f"decision to proceed was taken on a snapshot of self.{fld}: two threads can both pass the test "
                                  f"before either records it"})
        for lk, line in v.reacquired:
            if lk not in reentrant:
                out.append({"name": f"{spec.cls_qual}.{mname}/no-self-deadlock:{lk}", "line": line, "status": "refuted",
                            "kind": "lock-order", "detail": f"`with self.{lk}:` at line {line} is lexically inside `with self.{lk}:` and {lk} is not reentrant"})
        nsd = 0
        for callee, held, line in v.calls_direct:
            for a in held:
                if a in reentrant:
                    continue
                nsd += 1
                if a in trans.get(callee, ()):
                    out.append({"name": f"{spec.cls_qual}.{mname}/no-self-deadlock:{a}", "line": line, "status": "refuted",
                                "kind": "lock-order",
                                "detail": f"{callee}() is called at line {line} while the non-reentrant {a} is held and acquires {a} "
                                          f"itself ({' -> '.join(trans_path.get((callee, a), [callee]))}): the calling thread blocks for ever"})
        if nsd and not any(o["name"].startswith(f"{spec.cls_qual}.{mname}/no-self-deadlock") for o in out):
            out.append({"name": f"{spec.cls_qual}.{mname}/no-self-deadlock", "line": 0, "status": "proved", "kind": "lock-order",
                        "detail": f"{nsd} call(s) of own methods under a non-reentrant lock; none of the callees (transitively) acquires that lock"})
        if v.raw_acquire:
            out.append({"name": f"{spec.cls_qual}.{mname}/locks-only-by-with", "line": v.raw_acquire[0],
                        "status": "refuted", "kind": "ownership",
                        "detail": "explicit acquire()/release(): lexical ownership reasoning does not apply"})
    for a, b, why in spec.snapshot_order:
        for mname, fn in ci.methods.items():
            if mname == "__init__":
                continue
            first = {}
            for n in ast.walk(fn):
                flds = set()
                if isinstance(n, ast.Attribute) and isinstance(n.value, ast.Name) and n.value.id == "self" and isinstance(n.ctx, ast.Load):
                    if n.attr in (a, b):
                        flds.add(n.attr)
                if isinstance(n, ast.Call) and isinstance(n.func, ast.Attribute) and isinstance(n.func.value, ast.Name) \
                        and n.func.value.id == "self" and n.func.attr in method_reads:
                    flds |= method_reads[n.func.attr] & {a, b}
                for f in flds:
                    first[f] = min(first.get(f, n.lineno), n.lineno)
            if a in first and b in first:
                ok = first[a] <= first[b]
                out.append({"name": f"{spec.cls_qual}.{mname}/snapshot-order:{a}-before-{b}", "line": first[b], "status": "proved" if ok else "refuted",
                            "kind": "ownership",
                            "detail": (f"self.{a} is read (line {first[a]}) before self.{b} (line {first[b]})" if ok else
                                       f"self.{b} is read at line {first[b]}, before self.{a} (line {first[a]}): {why}")})
    # methods declared to run under a lock: every call site must hold it
    for h, lock in spec.holds.items():
        if lock is None:
            continue
        for mname, v in per_method.items():
            for callee, held, line in v.calls_held:
                if callee == h:
                    ok = lock in held
                    out.append({"name": f"{spec.cls_qual}.{mname}/calls:{h}:requires:{lock}", "line": line,
                                "status": "proved" if ok else "refuted", "kind": "ownership",
                                "detail": f"call of {h} at line {line} " + ("holds" if ok else "does NOT hold") + f" {lock}"})
    # lock order: edges a -> b (b acquired while a held), through direct nesting and calls of own methods
    edges = set()
    for mname, v in per_method.items():
        for a, b, line in v.edges:
            edges.add((a, b, f"{mname}:{line}"))
        for callee, held, line in v.calls_direct:
            for b in trans.get(callee, ()):
                for a in held:
                    if a != b:
                        edges.add((a, b, f"{mname}:{line}->{callee}"))
    graph: Dict[str, set] = {}
    for a, b, w in edges:
        graph.setdefault(a, set()).add(b)
    cyc = _cycle(graph)
    out.append({"name": f"{spec.cls_qual}/lock-order-acyclic", "line": 0, "status": "refuted" if cyc else "proved",
                "kind": "lock-order",
                "detail": ("cycle " + " -> ".join(cyc)) if cyc else
                ("acquisition order: " + ", ".join(sorted(f"{a}<{b}" for a, b, _ in edges)) if edges else "no nested acquisition")})
    return out


def _cycle(graph):
    color = {}

    def dfs(u, path):
        color[u] = 1
        for v in graph.get(u, ()):
            if color.get(v) == 1:
                return path + [u, v]
            if color.get(v) is None:
                r = dfs(v, path + [u])
                if r:
                    return r
        color[u] = 2
        return None
    for u in list(graph):
        if color.get(u) is None:
            r = dfs(u, [])
            if r:
                return r
    return None


class IdentitySpec:
    """a dataclass whose hash() serves as an identifier (e.g. the subscription id = hash(request)): every field has to
    take part in == and in hash(), or two different values share an identifier"""
    def __init__(self, cls_qual, props=(), note=""):
        self.cls_qual = cls_qual
        self.props = list(props)
        self.guarded = {}
        self.note = note
        self.identity = True


def check_identity(repo, spec):
    ci = repo.class_by_qual(spec.cls_qual)
    out = []
    for node in ci.node.body:
        if not isinstance(node, ast.AnnAssign) or not isinstance(node.target, ast.Name):
            continue
        fname = node.target.id
        excluded = []
        v = node.value
        if isinstance(v, ast.Call) and (getattr(v.func, "id", None) == "field" or getattr(v.func, "attr", None) == "field"):
            for kw in v.keywords:
                if kw.arg in ("hash", "compare") and isinstance(kw.value, ast.Constant) and kw.value.value is False:
                    excluded.append(kw.arg)
        ok = not excluded
        out.append({"name": f"{spec.cls_qual}/identifier-covers-field:{fname}", "line": node.lineno, "kind": "ownership",
                    "status": "proved" if ok else "refuted",
                    "detail": f"field {fname} takes part in == and hash()" if ok else
                    f"field {fname} is declared with {', '.join(e + '=False' for e in excluded)}: two values differing only in {fname} share hash(), i.e. the identifier derived from it"})
    decorated = [d for d in ci.node.decorator_list]
    frozen_eq = any(isinstance(d, ast.Call) and any(k.arg == "frozen" and getattr(k.value, "value", None) is True for k in d.keywords)
                    for d in decorated)
    custom_hash = "__hash__" in ci.methods or "__eq__" in ci.methods
    out.append({"name": f"{spec.cls_qual}/identifier-is-the-generated-dataclass-hash", "line": ci.node.lineno, "kind": "ownership",
                "status": "proved" if (frozen_eq and not custom_hash) else "refuted",
                "detail": "frozen dataclass with generated __eq__/__hash__ over all fields" if (frozen_eq and not custom_hash)
                else "the class defines its own __eq__/__hash__ or is not a frozen dataclass: the identifier semantics are not the field-wise ones the contracts assume"})
    return out
