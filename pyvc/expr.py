"""Expression evaluation."""
from __future__ import annotations

import ast

import z3
from .slicing import fold as _fold

from .state import State
from .source import is_static, is_classmethod, is_property
from .values import (V, NONE, NoneV, Opt, StrV, SymStr, EnumV, Rec, Ref, TupleV, BytesV, ClassV, FuncV, BoundV,
                     BuiltinV, ModuleV, ExcV, Opaque, RaiseV, Obj, Unsupported, is_term, is_bool, is_real)

PY_BUILTINS = {"len", "int", "float", "bool", "str", "bytes", "abs", "min", "max", "round", "isinstance", "range",
               "enumerate", "zip", "sorted", "list", "tuple", "dict", "set", "sum", "any", "all", "getattr",
               "hasattr", "print", "repr", "divmod", "pow", "hash", "id", "type", "object", "reversed", "iter",
               "next", "callable", "bytearray", "frozenset", "super", "ord", "chr", "hex", "format", "map", "filter"}
SPEC_FORMS = {"model", "gcount", "dq_lo", "dq_hi", "dq_at_pos", "dq_pos_of", "now", "map_has", "map_get", "map_key0", "set_has", "dq_len", "dq_maxlen", "dq_at", "dq_idx", "ghost", "timer_arg", "timer_delay", "old", "implies", "forall", "exists", "raised", "iff", "ite", "uf", "fresh_int", "fresh_real",
              "fresh_bool"}
EXTERNAL_MODULES = {"math", "time", "threading", "random", "logging", "datetime", "json", "socket", "struct",
                    "select", "copy", "dataclasses", "typing", "enum", "collections", "hashlib", "os", "sys",
                    "asn1tools", "ecdsa", "tinydb", "dateutil", "abc", "queue", "functools", "itertools"}


def _h_unknown_global(e, st, o, name, args, kwargs):
    if name == "__contains__":
        yield st, z3.Bool(e.fresh("in_global_container"))
    elif name in ("add", "discard", "append", "extend", "clear", "update"):
        yield st, NONE
    elif name == "__len__":
        n = e.T.const(e.fresh("global_len"))
        yield st.assume(n >= e.intval(0)), n
    else:
        raise Unsupported(f"{name} on the module-level mutable container {o.data['name']}")


class ExprMixin:
    # ------------------------------------------------------------------ helpers
    def exc(self, name, *args) -> ExcV:
        return ExcV(name, None, args)

    def ev_many(self, exprs, st):
        """evaluate a list of expressions left to right; yields (st, [values]) or (st, RaiseV)"""
        if not exprs:
            yield st, []
            return
        for s1, v in self.ev(exprs[0], st):
            if isinstance(v, RaiseV):
                yield s1, v
                continue
            for s2, rest in self.ev_many(exprs[1:], s1):
                if isinstance(rest, RaiseV):
                    yield s2, rest
                else:
                    yield s2, [v] + rest

    def unwrap(self, st, v, what="operation"):
        """strip an Optional: yields (st, payload) plus a raising alternative when None is possible"""
        if isinstance(v, Opt):
            if self.feasible(st.pc, v.isnone):
                yield st.assume(v.isnone), RaiseV(self.exc("TypeError", f"{what} on None"))
            if self.feasible(st.pc, z3.Not(v.isnone)):
                yield st.assume(z3.Not(v.isnone)), v.val
        elif isinstance(v, NoneV):
            yield st, RaiseV(self.exc("TypeError", f"{what} on None"))
        else:
            yield st, v

    def lookup_name(self, st: State, name: str):
        if name in st.loc:
            return st.loc[name]
        clo = st.loc.get("$closure")
        while clo is not None:
            if name in clo:
                return clo[name]
            clo = clo.get("$closure")
        if self.spec_mode:
            if name in self.spec_env:
                return self.spec_env[name]
            if name in SPEC_FORMS:
                return BuiltinV("spec:" + name)
        mod = st.loc.get("$module")
        if mod is not None:
            if (mod, name) in self.const_overrides:
                return self.const_overrides[(mod, name)]
            r = self.repo.resolve_name(mod, name)
            if r is not None:
                return self.resolved_value(st, r, name)
        if name in PY_BUILTINS:
            return BuiltinV(name)
        if name in BUILTIN_EXC_NAMES:
            return BuiltinV("exc:" + name)
        if name in self.spec_env:
            return self.spec_env[name]
        raise Unsupported(f"unknown name {name!r} in {mod}")

    def resolved_value(self, st, r, name):
        if r[0] == "class":
            return ClassV(r[1])
        if r[0] == "func":
            return FuncV(r[1], r[2], None, None, f"{r[1]}:{r[2].name}")
        if r[0] == "module":
            return ModuleV(r[1])
        if r[0] == "external":
            if r[1] in self.external_values:
                return self.external_values[r[1]]
            return BuiltinV("ext:" + r[1])
        if r[0] == "const":
            return self.module_const(r[1], name, r[2])
        raise Unsupported(f"name resolution {r[0]}")

    def module_const(self, mod, name, expr):
        """value of a module-level constant: evaluated in an empty state (must be path-free and heap-free,
        except literal containers which are rebuilt on demand)"""
        key = (mod, name)
        if key in self.const_overrides:
            return self.const_overrides[key]
        cache = self.__dict__.setdefault("_constcache", {})
        if key in cache:
            return cache[key]
        st0 = State(loc={"$module": mod, "$qual": f"{mod}:<module>", "$depth": 0})
        outs = list(self.ev(expr, st0))
        if len(outs) != 1 or isinstance(outs[0][1], RaiseV):
            raise Unsupported(f"module constant {mod}.{name} is not a simple constant")
        s1, v = outs[0]
        if s1.nalloc:
            if self.global_is_mutated(mod, name):
                # module-level container that some function of the module mutates: its content at the time of a call
                # depends on the whole history of the process - nothing is known about it
                self.used_assumptions.add(f"module-level mutable container {mod}.{name}: arbitrary content (membership tests "
                                          "return an arbitrary boolean, mutations have no visible effect)")
                v = Opaque("unknown_global", None, {"name": f"{mod}.{name}"})
                self.opaque_handlers.setdefault("unknown_global", _h_unknown_global)
            else:
                # literal container: cannot be shared across states by reference -> frozen snapshot
                v = ConstContainer(self.freeze(s1, v))
        cache[key] = v
        return v

    def global_is_mutated(self, mod, name):
        """is the module-level name `name` mutated in place (or rebound through `global`) anywhere in its module?"""
        mi = self.repo.modules.get(mod) if hasattr(self.repo, "modules") else None
        if mi is None:
            return False
        mut = {"add", "discard", "remove", "append", "extend", "insert", "pop", "popitem", "clear", "update", "setdefault",
               "sort", "reverse", "appendleft", "popleft", "difference_update", "intersection_update", "symmetric_difference_update"}
        for n in ast.walk(mi.tree):
            if isinstance(n, ast.Call) and isinstance(n.func, ast.Attribute) and n.func.attr in mut \
                    and isinstance(n.func.value, ast.Name) and n.func.value.id == name:
                return True
            if isinstance(n, (ast.Subscript,)) and isinstance(n.ctx, (ast.Store, ast.Del)) \
                    and isinstance(n.value, ast.Name) and n.value.id == name:
                return True
            if isinstance(n, ast.AugAssign) and isinstance(n.target, ast.Name) and n.target.id == name:
                return True
            if isinstance(n, ast.Global) and name in n.names:
                return True
        return False

    def freeze(self, st, v):
        """deep snapshot of a heap value into an immutable meta value"""
        if isinstance(v, Ref):
            o = st.obj(v)
            if o.kind == "list":
                return ("list", [self.freeze(st, i) for i in o.items])
            if o.kind == "dict":
                return ("dict", [(self.freeze(st, e[0]), self.freeze(st, e[2])) for e in o.items])
            if o.kind == "set":
                return ("set", [self.freeze(st, i) for i in o.items])
            raise Unsupported("freeze object")
        if isinstance(v, TupleV):
            return ("tuple", [self.freeze(st, i) for i in v.items])
        return ("v", v)

    def thaw(self, st, fz):
        k = fz[0]
        if k == "v":
            return st, fz[1]
        if k == "tuple":
            items = []
            for i in fz[1]:
                st, x = self.thaw(st, i)
                items.append(x)
            return st, TupleV(items)
        if k in ("list", "set"):
            items = []
            for i in fz[1]:
                st, x = self.thaw(st, i)
                items.append(x)
            return st.alloc(Obj(None, k, None, items))
        if k == "dict":
            items = []
            for kk, vv in fz[1]:
                st, x = self.thaw(st, kk)
                st, y = self.thaw(st, vv)
                items.append([x, z3.BoolVal(True), y])
            return st.alloc(Obj(None, "dict", None, items))
        raise Unsupported("thaw")

    # ------------------------------------------------------------------ ev
    def ev(self, e, st: State):
        m = getattr(self, "ev_" + type(e).__name__, None)
        if m is None:
            raise Unsupported(f"expression {type(e).__name__} at line {getattr(e, 'lineno', '?')}")
        yield from m(e, st)

    def ev_Constant(self, e, st):
        v = e.value
        if v is Ellipsis:
            yield st, NONE
        else:
            yield st, self.lift(v)

    def ev_Name(self, e, st):
        v = self.lookup_name(st, e.id)
        if isinstance(v, ConstContainer):
            s1, x = self.thaw(st, v.fz)
            yield s1, x
        else:
            yield st, v

    def ev_JoinedStr(self, e, st):
        # f-string: parts are evaluated (they may raise) but the text is opaque
        exprs = [p.value for p in e.values if isinstance(p, ast.FormattedValue)]
        for s1, vs in self.ev_many(exprs, st):
            if isinstance(vs, RaiseV):
                yield s1, vs
            else:
                yield s1, Opaque("str")

    def ev_Tuple(self, e, st):
        if any(isinstance(x, ast.Starred) for x in e.elts):
            raise Unsupported("starred tuple")
        for s1, vs in self.ev_many(e.elts, st):
            yield (s1, vs) if isinstance(vs, RaiseV) else (s1, TupleV(vs))

    def ev_List(self, e, st):
        for s1, vs in self.ev_many(e.elts, st):
            if isinstance(vs, RaiseV):
                yield s1, vs
            else:
                yield s1.alloc(Obj(None, "list", None, vs))

    def ev_Set(self, e, st):
        for s1, vs in self.ev_many(e.elts, st):
            if isinstance(vs, RaiseV):
                yield s1, vs
            else:
                yield s1.alloc(Obj(None, "set", None, vs))

    def ev_Dict(self, e, st):
        if any(k is None for k in e.keys):
            raise Unsupported("dict unpacking")
        for s1, vs in self.ev_many(list(e.keys) + list(e.values), st):
            if isinstance(vs, RaiseV):
                yield s1, vs
                continue
            n = len(e.keys)
            items = []
            for k, v in zip(vs[:n], vs[n:]):
                kc = self.key_const(k)
                items = [it for it in items if self.key_const(it[0]) != kc]
                items.append([k, z3.BoolVal(True), v])
            yield s1.alloc(Obj(None, "dict", None, items))

    def ev_Lambda(self, e, st):
        yield st, FuncV(st.loc.get("$module"), e, None, st.loc, None)

    def ev_IfExp(self, e, st):
        for s1, c in self.ev(e.test, st):
            if isinstance(c, RaiseV):
                yield s1, c
                continue
            t = self.truth(s1, c)
            yield from self.branch_expr(s1, t, e.body, e.orelse)

    def branch_expr(self, st, t, e_then, e_else):
        """value of (e_then if t else e_else), merging when both sides are single and pure"""
        ft = self.feasible(st.pc, t)
        ff = self.feasible(st.pc, z3.Not(t))
        outs_t = list(self.ev(e_then, st.assume(t))) if ft else []
        outs_f = list(self.ev(e_else, st.assume(z3.Not(t)))) if ff else []
        if len(outs_t) == 1 and len(outs_f) == 1 and not isinstance(outs_t[0][1], RaiseV) \
                and not isinstance(outs_f[0][1], RaiseV):
            (s1, v1), (s2, v2) = outs_t[0], outs_f[0]
            m = self.merge_states(st, t, s1, s2)
            if m is not None:
                try:
                    yield m, self.merge(st, t, v1, v2)
                    return
                except Unsupported:
                    pass
        yield from outs_t
        yield from outs_f

    def ev_BoolOp(self, e, st):
        yield from self._boolop(isinstance(e.op, ast.And), e.values, st)

    def _boolop(self, is_and, exprs, st):
        if len(exprs) == 1:
            yield from self.ev(exprs[0], st)
            return
        for s1, a in self.ev(exprs[0], st):
            if isinstance(a, RaiseV):
                yield s1, a
                continue
            ta = self.truth(s1, a)
            go = ta if is_and else z3.Not(ta)       # condition under which the rest is evaluated
            f_go = self.feasible(s1.pc, go)
            f_stop = self.feasible(s1.pc, z3.Not(go))
            if not f_go:
                yield s1, a
                continue
            outs = list(self._boolop(is_and, exprs[1:], s1.assume(go)))
            if not f_stop:
                yield from outs
                continue
            # try to merge: single pure boolean outcome
            if len(outs) == 1 and not isinstance(outs[0][1], RaiseV):
                s2, b = outs[0]
                if is_bool(a) and is_bool(b) and s2.heap is s1.heap and s2.ghost is s1.ghost \
                        and len(s2.pc) == len(s1.pc) + 1:
                    yield s1, (z3.And(ta, b) if is_and else z3.Or(ta, b))
                    continue
                stop_state = s1.assume(z3.Not(go))
                m = self.merge_states(s1, go, s2, stop_state)
                if m is not None:
                    try:
                        yield m, self.merge(s1, go, b, a)
                        continue
                    except Unsupported:
                        pass
            yield s1.assume(z3.Not(go)), a
            yield from outs

    def ev_UnaryOp(self, e, st):
        for s1, a in self.ev(e.operand, st):
            if isinstance(a, RaiseV):
                yield s1, a
                continue
            if isinstance(e.op, ast.Not):
                yield s1, z3.Not(self.truth(s1, a))
                continue
            for s2, x in self.unwrap(s1, a, "unary op"):
                if isinstance(x, RaiseV):
                    yield s2, x
                elif isinstance(e.op, ast.USub):
                    if is_real(x):
                        yield s2, -x
                    else:
                        yield s2, self.T.neg(self.to_int(x))
                elif isinstance(e.op, ast.UAdd):
                    yield s2, x
                elif isinstance(e.op, ast.Invert) and isinstance(x, Opaque) and x.typ in getattr(self, "opaque_operators", ()):
                    yield from self.opaque_call(s2, x, "__invert__", [], {})
                elif isinstance(e.op, ast.Invert):
                    yield s2, self.T.sub(self.T.neg(self.to_int(x)), self.intval(1), self.obl_fn(s2))
                else:
                    raise Unsupported("unary op")

    def ev_BinOp(self, e, st):
        for s1, vs in self.ev_many([e.left, e.right], st):
            if isinstance(vs, RaiseV):
                yield s1, vs
                continue
            yield from self.binop(s1, type(e.op), vs[0], vs[1])

    def binop(self, st, op, a, b):
        for s1, r in self._binop(st, op, a, b):
            ax = self.T.take_axioms()
            for c in ax:
                s1 = s1.assume(c)
            yield s1, r

    def _binop(self, st, op, a, b):
        for s1, a1 in self.unwrap(st, a, "arithmetic"):
            if isinstance(a1, RaiseV):
                yield s1, a1
                continue
            for s2, b1 in self.unwrap(s1, b, "arithmetic"):
                if isinstance(b1, RaiseV):
                    yield s2, b1
                    continue
                yield from self.binop2(s2, op, a1, b1)

    def binop2(self, st, op, a, b):
        T = self.T
        if isinstance(a, Opaque) and a.typ in getattr(self, "opaque_operators", ()) and op in (ast.BitAnd, ast.BitOr):
            yield from self.opaque_call(st, a, "__and__" if op is ast.BitAnd else "__or__", [b], {})
            return
        # non-numeric overloads
        if isinstance(a, BytesV) and isinstance(b, BytesV) and op is ast.Add:
            yield st, self.bytes_concat(a, b)
            return
        if isinstance(a, (StrV, Opaque)) and isinstance(b, (StrV, Opaque)) and op is ast.Add \
                and (isinstance(a, StrV) or a.typ == "str") and (isinstance(b, StrV) or b.typ == "str"):
            if isinstance(a, StrV) and isinstance(b, StrV):
                yield st, StrV(a.s + b.s)
            else:
                yield st, Opaque("str")
            return
        if isinstance(a, StrV) and op is ast.Mod:
            yield st, Opaque("str")
            return
        if isinstance(a, TupleV) and isinstance(b, TupleV) and op is ast.Add:
            yield st, TupleV(a.items + b.items)
            return
        if isinstance(a, Ref) and isinstance(b, Ref) and op is ast.Add:
            oa, ob = st.obj(a), st.obj(b)
            if oa.kind == "list" and ob.kind == "list" and not oa.extra and not ob.extra:
                yield st.alloc(Obj(None, "list", None, list(oa.items) + list(ob.items)))
                return
        if isinstance(a, Ref) and op is ast.Mult and st.obj(a).kind == "list":
            n = self.pyconst(b)
            if n is not None:
                yield st.alloc(Obj(None, "list", None, list(st.obj(a).items) * n))
                return
        if isinstance(a, BytesV) and op is ast.Mult:
            n = self.pyconst(b)
            if n is not None:
                yield st, BytesV(a.segs * n)
                return
        if isinstance(a, (Rec, Ref)):
            dn = {ast.Add: "__add__", ast.Sub: "__sub__", ast.Mult: "__mul__", ast.BitOr: "__or__",
                  ast.BitAnd: "__and__"}.get(op)
            cls = a.cls if isinstance(a, Rec) else st.obj(a).cls
            if dn and cls is not None and self.repo.find_method(cls, dn):
                yield from self.call_method(st, a, dn, [b], {})
                return
        if not (self.is_num(a) and self.is_num(b)):
            raise Unsupported(f"binary {op.__name__} on {type(a).__name__}, {type(b).__name__}")
        if op in (ast.LShift, ast.RShift, ast.BitAnd, ast.BitOr, ast.BitXor):
            if is_bool(a) and is_bool(b) and op in (ast.BitAnd, ast.BitOr, ast.BitXor):
                yield st, {ast.BitAnd: z3.And, ast.BitOr: z3.Or, ast.BitXor: z3.Xor}[op](a, b)
                return
            if is_real(a) or is_real(b):
                yield st, RaiseV(self.exc("TypeError", "bit operation on float"))
                return
            x, y = self.to_int(a), self.to_int(b)
            if op is ast.LShift:
                cy = T.as_const(y)
                if cy is not None and cy < 0:
                    yield st, RaiseV(self.exc("ValueError", "negative shift count"))
                    return
                yield st, T.shl(x, y, self.obl_fn(st))
            elif op is ast.RShift:
                yield st, T.shr(x, y)
            elif op is ast.BitAnd:
                yield st, T.band(x, y)
            elif op is ast.BitOr:
                yield st, T.bor(x, y)
            else:
                yield st, T.bxor(x, y)
            return
        x, y, kind = self.num_pair(a, b)
        if op is ast.Add:
            yield st, (x + y if kind == "real" else T.add(x, y, self.obl_fn(st)))
        elif op is ast.Sub:
            yield st, (x - y if kind == "real" else T.sub(x, y, self.obl_fn(st)))
        elif op is ast.Mult:
            yield st, (x * y if kind == "real" else T.mul(x, y, self.obl_fn(st)))
        elif op is ast.Div:
            rx, ry = self.to_real(x), self.to_real(y)
            yield from self.guard_zero(st, ry, lambda: rx / ry, "division by zero")
        elif op is ast.FloorDiv:
            if kind == "real":
                yield from self.guard_zero(st, y, lambda: z3.ToReal(z3.ToInt(x / y)), "division by zero")
            else:
                yield from self.guard_zero(st, y, lambda: T.floordiv(x, y), "integer division by zero")
        elif op is ast.Mod:
            if kind == "real":
                yield from self.guard_zero(st, y, lambda: x - y * z3.ToReal(z3.ToInt(x / y)), "modulo by zero")
            else:
                yield from self.guard_zero(st, y, lambda: T.mod(x, y), "modulo by zero")
        elif op is ast.Pow:
            yield from self.power(st, x, y, kind)
        else:
            raise Unsupported(f"binary operator {op.__name__}")

    def guard_zero(self, st, d, mk, msg):
        cd = self.pyconst(d)
        if cd is not None:
            if cd == 0:
                yield st, RaiseV(self.exc("ZeroDivisionError", msg))
            else:
                yield st, mk()
            return
        zero = (d == 0) if is_real(d) else (d == self.intval(0))
        if self.feasible(st.pc, zero):
            yield st.assume(zero), RaiseV(self.exc("ZeroDivisionError", msg))
        nz = z3.Not(zero)
        if self.feasible(st.pc, nz):
            yield st.assume(nz), mk()

    def power(self, st, x, y, kind):
        cy = self.pyconst(y)
        cx = self.pyconst(x)
        if cx is not None and cy is not None:
            r = cx ** cy
            yield st, self.lift(r)
            return
        if cy is not None and float(cy) == int(cy) and 0 <= int(cy) <= 4:
            n = int(cy)
            if n == 0:
                yield st, (z3.RealVal(1) if kind == "real" else self.intval(1))
                return
            r = x
            for _ in range(n - 1):
                r = r * x if kind == "real" else self.T.mul(r, x, self.obl_fn(st))
            yield st, r
            return
        if cy is not None and cy == 0.5:
            yield st, self.uf_sqrt(st, self.to_real(x))
            return
        raise Unsupported("general ** ")

    def uf_sqrt(self, st, x):
        f = self.get_uf("sqrt", [z3.RealSort()], z3.RealSort())
        return f(x)

    def get_uf(self, name, dom, rng):
        if name not in self.uf:
            self.uf[name] = z3.Function(name, *dom, rng)
        return self.uf[name]

    # ------------------------------------------------------------------ comparisons
    def ev_Compare(self, e, st):
        operands = [e.left] + list(e.comparators)
        yield from self._compare_chain(st, operands, list(e.ops), None)

    def _compare_chain(self, st, operands, ops, left_val):
        # a op1 b op2 c  ==  (a op1 b) and (b op2 c) with b evaluated once
        if left_val is None:
            for s1, a in self.ev(operands[0], st):
                if isinstance(a, RaiseV):
                    yield s1, a
                else:
                    yield from self._compare_chain(s1, operands, ops, (a,))
            return
        a = left_val[0]
        for s1, b in self.ev(operands[1], st):
            if isinstance(b, RaiseV):
                yield s1, b
                continue
            for s2, r in self.compare(s1, type(ops[0]), a, b):
                if isinstance(r, RaiseV) or len(ops) == 1:
                    yield s2, r
                    continue
                rt = self.truth(s2, r)
                ft, ff = self.feasible(s2.pc, rt), self.feasible(s2.pc, z3.Not(rt))
                rest = list(self._compare_chain(s2.assume(rt), operands[1:], ops[1:], (b,))) if ft else []
                if ft and ff and len(rest) == 1 and not isinstance(rest[0][1], RaiseV) and is_bool(rest[0][1]) \
                        and rest[0][0].heap is s2.heap and len(rest[0][0].pc) == len(s2.pc) + 1:
                    yield s2, z3.And(rt, rest[0][1])
                    continue
                if ff:
                    yield s2.assume(z3.Not(rt)), z3.BoolVal(False)
                yield from rest

    def compare(self, st, op, a, b):
        if op in (ast.Is, ast.IsNot):
            r = self.identical(st, a, b)
            yield st, (r if op is ast.Is else z3.Not(r))
            return
        if op in (ast.In, ast.NotIn):
            for s1, r in self.contains(st, b, a):
                if isinstance(r, RaiseV):
                    yield s1, r
                else:
                    yield s1, (r if op is ast.In else z3.Not(r))
            return
        if isinstance(a, Opaque) and a.typ in getattr(self, "opaque_operators", ()):
            # collaborators that overload comparison operators (query builders)
            dn = {ast.Eq: "__eq__", ast.NotEq: "__ne__", ast.Lt: "__lt__", ast.LtE: "__le__", ast.Gt: "__gt__", ast.GtE: "__ge__"}[op]
            yield from self.opaque_call(st, a, dn, [b], {})
            return
        if op in (ast.Eq, ast.NotEq):
            for s1, r in self.eq_dispatch(st, a, b):
                if isinstance(r, RaiseV):
                    yield s1, r
                else:
                    yield s1, (r if op is ast.Eq else z3.Not(self.truth(s1, r)))
            return
        # ordering
        dn = {ast.Lt: "__lt__", ast.LtE: "__le__", ast.Gt: "__gt__", ast.GtE: "__ge__"}[op]
        if isinstance(a, (Rec, Ref)):
            cls = a.cls if isinstance(a, Rec) else st.obj(a).cls
            if cls is not None and self.repo.find_method(cls, dn):
                yield from self.call_method(st, a, dn, [b], {})
                return
            if cls is not None and self.repo.find_method(cls, "__lt__") and op is not ast.Lt:
                # functools.total_ordering: the missing comparisons are derived from __lt__ and __eq__
                for s1, lt in self.call_method(st, a, "__lt__", [b], {}):
                    if isinstance(lt, RaiseV):
                        yield s1, lt
                        continue
                    ltb = self.truth(s1, lt)
                    if op is ast.GtE:
                        yield s1, z3.Not(ltb)
                        continue
                    for s2, eqv in self.eq_dispatch(s1, a, b):
                        if isinstance(eqv, RaiseV):
                            yield s2, eqv
                            continue
                        eqb = self.truth(s2, eqv)
                        yield s2, (z3.Or(ltb, eqb) if op is ast.LtE else z3.And(z3.Not(ltb), z3.Not(eqb)))
                return
        for s1, x in self.unwrap(st, a, "comparison"):
            if isinstance(x, RaiseV):
                yield s1, x
                continue
            for s2, y in self.unwrap(s1, b, "comparison"):
                if isinstance(y, RaiseV):
                    yield s2, y
                    continue
                if self.is_num(x) and self.is_num(y):
                    p, q, _ = self.num_pair(x, y)
                    yield s2, {ast.Lt: p < q, ast.LtE: p <= q, ast.Gt: p > q, ast.GtE: p >= q}[op]
                elif isinstance(x, TupleV) and isinstance(y, TupleV):
                    yield s2, self.tuple_order(s2, op, x, y)
                else:
                    raise Unsupported(f"ordering of {type(x).__name__} and {type(y).__name__}")

    def tuple_order(self, st, op, x, y):
        strict = op in (ast.Lt, ast.Gt)
        less = op in (ast.Lt, ast.LtE)
        n = min(len(x.items), len(y.items))
        res = z3.BoolVal((len(x.items) < len(y.items)) if less else (len(x.items) > len(y.items))) \
            if len(x.items) != len(y.items) else z3.BoolVal(not strict)
        for i in reversed(range(n)):
            p, q, _ = self.num_pair(x.items[i], y.items[i])
            res = z3.If(p == q, res, (p < q) if less else (p > q))
        return res

    def identical(self, st, a, b):
        if isinstance(a, Opt) and isinstance(b, NoneV):
            return a.isnone
        if isinstance(b, Opt) and isinstance(a, NoneV):
            return b.isnone
        if isinstance(a, NoneV) or isinstance(b, NoneV):
            return z3.BoolVal(isinstance(a, NoneV) and isinstance(b, NoneV))
        if isinstance(a, Ref) and isinstance(b, Ref):
            return z3.BoolVal(a.addr == b.addr)
        if isinstance(a, EnumV) and isinstance(b, EnumV):
            return self.eq(st, a, b)
        if is_bool(a) and is_bool(b):
            return a == b
        if isinstance(a, ClassV) and isinstance(b, ClassV):
            return z3.BoolVal(a.cls.qual == b.cls.qual)
        if isinstance(a, Opaque) and isinstance(b, Opaque) and a.ident is not None and b.ident is not None:
            return a.ident == b.ident
        if isinstance(a, Opt) or isinstance(b, Opt):
            ia = a.isnone if isinstance(a, Opt) else z3.BoolVal(False)
            ib = b.isnone if isinstance(b, Opt) else z3.BoolVal(False)
            va = a.val if isinstance(a, Opt) else a
            vb = b.val if isinstance(b, Opt) else b
            return z3.Or(z3.And(ia, ib), z3.And(z3.Not(ia), z3.Not(ib), self.identical(st, va, vb)))
        if isinstance(a, BytesV) and isinstance(b, BytesV) and self.spec_mode:
            return self.bytes_eq(st, a, b)       # immutable values: specifications compare them by value
        if type(a) is not type(b) and isinstance(a, (Ref, Opaque, Rec, TupleV, StrV)) and isinstance(b, (Ref, Opaque, Rec, TupleV, StrV)):
            return z3.BoolVal(False)
        raise Unsupported(f"'is' on {type(a).__name__}, {type(b).__name__}")

    def eq_dispatch(self, st, a, b):
        """== with user-defined __eq__ from source"""
        for x, y in ((a, b), (b, a)):
            if isinstance(x, (Rec, Ref)):
                cls = x.cls if isinstance(x, Rec) else st.obj(x).cls
                if cls is not None:
                    fm = self.repo.find_method(cls, "__eq__")
                    if fm is not None:
                        yield from self.call_method(st, x, "__eq__", [y], {})
                        return
            if isinstance(x, Opt) and isinstance(x.val, (Rec, Ref)):
                cls = x.val.cls if isinstance(x.val, Rec) else st.obj(x.val).cls
                if cls is not None and self.repo.find_method(cls, "__eq__"):
                    # None == obj -> False ; obj == obj -> __eq__
                    if self.feasible(st.pc, x.isnone):
                        yield st.assume(x.isnone), self.eq(st, NONE, y)
                    if self.feasible(st.pc, z3.Not(x.isnone)):
                        yield from self.eq_dispatch(st.assume(z3.Not(x.isnone)), x.val, y)
                    return
        yield st, self.eq(st, a, b)

    def contains(self, st, container, item):
        if isinstance(container, (Opt, NoneV)):
            for s1, x in self.unwrap(st, container, "membership test"):
                if isinstance(x, RaiseV):
                    yield s1, x
                else:
                    yield from self.contains(s1, x, item)
            return
        from .stmt import MetaIter, DictIter
        if isinstance(container, DictIter):
            cs = [z3.And(p, self.eq(st, item, x)) for p, x in container.entries]
            yield st, z3.Or(*cs) if cs else z3.BoolVal(False)
            return
        if isinstance(container, (TupleV, MetaIter)):
            items = container.items
        elif isinstance(container, Ref):
            o = st.obj(container)
            if o.kind in ("list", "set", "deque"):
                if o.extra and o.extra.get("symbolic"):
                    yield from self.sym_container_contains(st, container, item)
                    return
                items = o.items
            elif o.kind == "dict":
                yield from self.dict_has(st, o, item)
                return
            else:
                if o.cls is not None and self.repo.find_method(o.cls, "__contains__"):
                    yield from self.call_method(st, container, "__contains__", [item], {})
                    return
                raise Unsupported("'in' on object")
        elif isinstance(container, StrV) and isinstance(item, StrV):
            yield st, z3.BoolVal(item.s in container.s)
            return
        elif isinstance(container, Opaque):
            yield from self.opaque_call(st, container, "__contains__", [item], {})
            return
        else:
            raise Unsupported(f"'in' on {type(container).__name__}")
        acc = z3.BoolVal(False)
        res = [acc]
        for it in items:
            res.append(self.eq(st, item, it))
        yield st, z3.Or(*res)

    def dict_has(self, st, o, key):
        if isinstance(key, SymStr) or (isinstance(key, EnumV) and is_term(key.val) and self.pyconst(key.val) is None) \
                or (self.is_int(key) and self.pyconst(key) is None and not (o.extra and o.extra.get("open"))
                    and all(self.is_int(e[0]) and self.pyconst(e[0]) is not None for e in o.items)):
            # symbolic key against a closed dict of constant keys: present iff it equals one of them
            cs = [z3.And(e[1], self.eq(st, key, e[0])) for e in o.items]
            yield st, z3.Or(*cs) if cs else z3.BoolVal(False)
            return
        kc = self.key_const(key)
        for e in o.items:
            if self.key_const(e[0]) == kc:
                yield st, e[1]
                return
        if o.extra and o.extra.get("open"):
            raise Unsupported(f"membership of undeclared key {kc} in open dict")
        yield st, z3.BoolVal(False)

    # ------------------------------------------------------------------ attribute / subscript
    def ev_Attribute(self, e, st):
        for s1, o in self.ev(e.value, st):
            if isinstance(o, RaiseV):
                yield s1, o
                continue
            yield from self.getattr(s1, o, e.attr)

    def getattr(self, st, o, name):
        if isinstance(o, Opt):
            if self.feasible(st.pc, o.isnone):
                yield st.assume(o.isnone), RaiseV(self.exc("AttributeError", f"None.{name}"))
            if self.feasible(st.pc, z3.Not(o.isnone)):
                yield from self.getattr(st.assume(z3.Not(o.isnone)), o.val, name)
            return
        if isinstance(o, NoneV):
            yield st, RaiseV(self.exc("AttributeError", f"None.{name}"))
            return
        if isinstance(o, Rec):
            if name in o.f:
                yield st, o.f[name]
                return
            yield from self.class_attr(st, o.cls, o, name)
            return
        if isinstance(o, Ref):
            ob = st.obj(o)
            if ob.kind == "obj":
                self.check_guard(st, o, ob, name, "read")
                if name in ob.f:
                    yield st, ob.f[name]
                    return
                if ob.cls is None:
                    raise Unsupported(f"attribute {name} of anonymous object")
                yield from self.class_attr(st, ob.cls, o, name)
                return
            if ob.extra and ob.extra.get("symbolic"):
                av = self.sym_container_attr(st, o, name)
                if av is not None:
                    yield st, av
                    return
            yield st, BoundV(o, name)
            return
        if isinstance(o, EnumV):
            if name == "value" and self.enum_by_index(o.cls):
                vals = list(o.cls.enum_members.values())
                c = self.pyconst(o.val)
                if c is not None:
                    yield st, self.lift(vals[c])
                    return
                acc = self.lift(vals[-1])
                for i in reversed(range(len(vals) - 1)):
                    acc = self.merge(st, o.val == self.intval(i), self.lift(vals[i]), acc)
                yield st, acc
                return
            if name == "value":
                yield st, self.lift(o.val)
                return
            if name == "name":
                c = o.val if not is_term(o.val) else self.pyconst(o.val)
                if c is None:
                    yield st, Opaque("str")
                elif self.enum_by_index(o.cls):
                    yield st, StrV(list(o.cls.enum_members)[c])
                else:
                    yield st, StrV([k for k, v in o.cls.enum_members.items() if v == c][0])
                return
            yield from self.class_attr(st, o.cls, o, name)
            return
        if isinstance(o, ClassV):
            ci = o.cls
            if name == "__name__":
                yield st, StrV(ci.name)
                return
            if ci.is_enum and name in ci.enum_members:
                yield st, self.enum_member(ci, name)
                return
            fm = self.repo.find_method(ci, name)
            if fm is not None:
                c, fn = fm
                f = FuncV(c.module, fn, c, None, f"{c.module}:{c.name}.{fn.name}")
                if is_classmethod(fn):
                    yield st, BoundV(o, name, f)
                else:
                    yield st, f         # static method or unbound function
                return
            ca = self.repo.find_class_attr(ci, name)
            if ca is not None:
                c, expr = ca
                yield st, self.module_const_thawed(st, c, name, expr)
                return
            raise Unsupported(f"class attribute {ci.name}.{name}")
        if isinstance(o, ModuleV):
            if o.external:
                yield st, BuiltinV(f"ext:{o.name}.{name}")
                return
            r = self.repo.resolve_name(o.name, name)
            if r is None:
                raise Unsupported(f"module attribute {o.name}.{name}")
            yield st, self.resolved_value(st, r, name)
            return
        if isinstance(o, BuiltinV):
            full = o.name + "." + name
            if full.startswith("ext:") and full[4:] in self.external_values:
                yield st, self.external_values[full[4:]]
                return
            yield st, BuiltinV(full)
            return
        if isinstance(o, ExcV):
            if name == "args":
                yield st, TupleV(list(o.args))
                return
            raise Unsupported(f"exception attribute {name}")
        if isinstance(o, (BytesV, StrV, SymStr, TupleV)) or is_term(o):
            yield st, BoundV(o, name)
            return
        if isinstance(o, Opaque):
            h = self.opaque_attr(st, o, name)
            if h is not None:
                yield st, h
                return
            yield st, BoundV(o, name)
            return
        if isinstance(o, FuncV) and name == "__name__":
            yield st, StrV(getattr(o.node, "name", "<lambda>"))
            return
        raise Unsupported(f"attribute {name} of {type(o).__name__}")

    def opaque_attr(self, st, o, name):
        return None

    def enum_by_index(self, ci):
        """enums whose values are not all ints are represented by the member index"""
        return not all(isinstance(v, int) and not isinstance(v, bool) for v in ci.enum_members.values())

    def enum_member(self, ci, name):
        if self.enum_by_index(ci):
            return EnumV(ci, self.intval(list(ci.enum_members).index(name)))
        return EnumV(ci, self.lift(ci.enum_members[name]))

    def module_const_thawed(self, st, ci, name, expr):
        v = self.module_const(ci.module, f"{ci.name}.{name}", expr)
        if isinstance(v, ConstContainer):
            raise Unsupported("container class attribute")
        return v

    def class_attr(self, st, ci, inst, name):
        if name == "__class__":
            yield st, ClassV(ci)
            return
        fm = self.repo.find_method(ci, name)
        if fm is not None:
            c, fn = fm
            f = FuncV(c.module, fn, c, None, f"{c.module}:{c.name}.{fn.name}")
            if is_property(fn):
                yield from self.call_function(st, f, [inst], {})
            elif is_static(fn):
                yield st, f
            elif is_classmethod(fn):
                yield st, BoundV(ClassV(ci), name, f)
            else:
                yield st, BoundV(inst, name, f)
            return
        ca = self.repo.find_class_attr(ci, name)
        if ca is not None:
            c, expr = ca
            v = self.module_const(c.module, f"{c.name}.{name}", expr)
            if isinstance(v, ConstContainer):
                s1, x = self.thaw(st, v.fz)
                yield s1, x
            else:
                yield st, v
            return
        if name.startswith("__") and name.endswith("__"):
            raise Unsupported(f"special attribute {ci.name}.{name}")
        if self.class_assigns_attr(ci, name):
            # some method of the class assigns self.<name>: the instance may well have it, the declared input shape of
            # the contract just does not list it - that is a gap of the contract, never an AttributeError of the code
            raise Unsupported(f"attribute {ci.name}.{name} is assigned by the class but missing from the contract's input shape")
        yield st, RaiseV(self.exc("AttributeError", f"{ci.name}.{name}"))

    def class_assigns_attr(self, ci, name):
        cache = self.__dict__.setdefault("_assigns_cache", {})
        key = (ci.qual, name)
        if key not in cache:
            found = False
            for k in self.repo.mro(ci):
                for fn in k.methods.values():
                    for n in ast.walk(fn):
                        if isinstance(n, ast.Attribute) and n.attr == name and isinstance(n.ctx, ast.Store) \
                                and isinstance(n.value, ast.Name) and n.value.id == "self":
                            found = True
            cache[key] = found
        return cache[key]

    def check_guard(self, st, ref, ob, name, how):
        """lock-ownership obligation hook (C15/C16); overridden by the lock discipline checker"""
        return

    def ev_Subscript(self, e, st):
        if isinstance(e.slice, ast.Slice):
            parts = [e.value] + [x for x in (e.slice.lower, e.slice.upper, e.slice.step) if x is not None]
            for s1, vs in self.ev_many(parts, st):
                if isinstance(vs, RaiseV):
                    yield s1, vs
                    continue
                it = iter(vs[1:])
                lo = next(it) if e.slice.lower is not None else None
                hi = next(it) if e.slice.upper is not None else None
                step = next(it) if e.slice.step is not None else None
                if step is not None:
                    raise Unsupported("slice step")
                yield from self.slice_value(s1, vs[0], lo, hi)
            return
        for s1, vs in self.ev_many([e.value, e.slice], st):
            if isinstance(vs, RaiseV):
                yield s1, vs
                continue
            yield from self.subscript(s1, vs[0], vs[1])

    def slice_value(self, st, o, lo, hi):
        clo = None if lo is None else self.pyconst(lo)
        chi = None if hi is None else self.pyconst(hi)
        if (lo is not None and clo is None) or (hi is not None and chi is None):
            raise Unsupported("symbolic slice bound")
        if isinstance(o, BytesV):
            if chi is not None and chi >= 0 and (clo is None or clo >= 0) and self.bytes_const_len(o) is None:
                long_enough = self.bytes_len(o) >= self.intval(chi)
                if not self.valid(st.pc, long_enough):
                    # python truncates the slice at the end of the data: split on the length
                    if self.feasible(st.pc, long_enough):
                        s1 = st.assume(long_enough)
                        yield s1, self.bytes_slice(s1, o, clo, chi)
                    if self.feasible(st.pc, z3.Not(long_enough)):
                        s2 = st.assume(z3.Not(long_enough))
                        yield s2, self.bytes_slice(s2, o, clo, None)
                    return
            yield st, self.bytes_slice(st, o, clo, chi)
        elif isinstance(o, TupleV):
            yield st, TupleV(o.items[clo:chi])
        elif isinstance(o, Ref) and st.obj(o).kind == "list" and not st.obj(o).extra:
            yield st.alloc(Obj(None, "list", None, list(st.obj(o).items[clo:chi])))
        elif isinstance(o, Opt):
            for s1, x in self.unwrap(st, o, "slice"):
                if isinstance(x, RaiseV):
                    yield s1, x
                else:
                    yield from self.slice_value(s1, x, lo, hi)
        else:
            raise Unsupported(f"slice of {type(o).__name__}")

    def subscript(self, st, o, idx):
        if isinstance(o, Opt):
            for s1, x in self.unwrap(st, o, "subscript"):
                if isinstance(x, RaiseV):
                    yield s1, x
                else:
                    yield from self.subscript(s1, x, idx)
            return
        if isinstance(o, NoneV):
            yield st, RaiseV(self.exc("TypeError", "None is not subscriptable"))
            return
        if isinstance(o, BytesV):
            i = self.const_index(st, idx)
            ln = self.bytes_len(o)
            need = self.intval(i + 1 if i >= 0 else -i)
            ok = ln >= need
            if self.feasible(st.pc, z3.Not(ok)):
                yield st.assume(z3.Not(ok)), RaiseV(self.exc("IndexError", "index out of range"))
            if self.feasible(st.pc, ok):
                s1 = st.assume(ok)
                yield s1, self.bytes_index(s1, o, i)
            return
        if isinstance(o, TupleV):
            yield from self.index_items(st, o.items, idx, "tuple")
            return
        if isinstance(o, Ref):
            ob = st.obj(o)
            if ob.kind in ("list", "deque"):
                if ob.extra and ob.extra.get("symbolic"):
                    yield from self.sym_container_index(st, o, idx)
                    return
                yield from self.index_items(st, ob.items, idx, "list")
                return
            if ob.kind == "dict":
                yield from self.dict_get(st, ob, idx, None, raise_missing=True)
                return
            if ob.cls is not None and self.repo.find_method(ob.cls, "__getitem__"):
                yield from self.call_method(st, o, "__getitem__", [idx], {})
                return
        if isinstance(o, Opaque):
            yield from self.opaque_call(st, o, "__getitem__", [idx], {})
            return
        if isinstance(o, ClassV) or isinstance(o, BuiltinV):
            yield st, o             # typing subscripts e.g. list[int]
            return
        raise Unsupported(f"subscript of {type(o).__name__}")

    def index_items(self, st, items, idx, what):
        if isinstance(idx, StrV) or isinstance(idx, (Rec, TupleV)):
            yield st, RaiseV(self.exc("TypeError", f"{what} indices must be integers"))
            return
        c = self.pyconst(idx)
        n = len(items)
        if c is not None:
            if -n <= c < n:
                yield st, items[c]
            else:
                yield st, RaiseV(self.exc("IndexError", f"{what} index out of range"))
            return
        i = self.to_int(idx)
        inr = z3.And(i >= self.intval(-n), i < self.intval(n))
        if self.feasible(st.pc, z3.Not(inr)):
            yield st.assume(z3.Not(inr)), RaiseV(self.exc("IndexError", f"{what} index out of range"))
        if n and self.feasible(st.pc, inr):
            s1 = st.assume(inr)
            try:
                acc = items[n - 1]
                for k in reversed(range(n - 1)):
                    acc = self.merge(s1, z3.Or(i == self.intval(k), i == self.intval(k - n)), items[k], acc)
                yield s1, acc
            except Unsupported:
                for k in range(n):
                    ck = z3.Or(i == self.intval(k), i == self.intval(k - n))
                    if self.feasible(s1.pc, ck):
                        yield s1.assume(ck), items[k]

    def dict_get(self, st, ob, key, default, raise_missing=False):
        """d[key] / d.get(key, default)"""
        symbolic_key = isinstance(key, SymStr) or (isinstance(key, EnumV) and is_term(key.val)
                                                   and self.pyconst(key.val) is None) \
            or (is_term(key) and self.pyconst(key) is None)
        if symbolic_key:
            # case split over the declared keys
            any_match = []
            for e in ob.items:
                c = z3.And(e[1], self.eq(st, key, e[0]))
                any_match.append(c)
                if self.feasible(st.pc, c):
                    yield st.assume(c), e[2]
            none = z3.Not(z3.Or(*any_match)) if any_match else z3.BoolVal(True)
            if self.feasible(st.pc, none):
                s1 = st.assume(none)
                if raise_missing:
                    yield s1, RaiseV(self.exc("KeyError", key))
                else:
                    yield s1, default
            return
        kc = self.key_const(key)
        for e in ob.items:
            if self.key_const(e[0]) == kc:
                p = e[1]
                sp = _fold(p)
                if z3.is_true(sp):
                    yield st, e[2]
                    return
                if raise_missing:
                    if self.feasible(st.pc, z3.Not(p)):
                        yield st.assume(z3.Not(p)), RaiseV(self.exc("KeyError", key))
                    if self.feasible(st.pc, p):
                        yield st.assume(p), e[2]
                    return
                if z3.is_false(sp):
                    yield st, default
                    return
                try:
                    yield st, self.merge(st, p, e[2], default)
                except Unsupported:
                    if self.feasible(st.pc, p):
                        yield st.assume(p), e[2]
                    if self.feasible(st.pc, z3.Not(p)):
                        yield st.assume(z3.Not(p)), default
                return
        if ob.extra and ob.extra.get("open"):
            raise Unsupported(f"lookup of undeclared key {kc} in open dict")
        if raise_missing:
            yield st, RaiseV(self.exc("KeyError", key))
        else:
            yield st, default

    def ev_Call(self, e, st):
        yield from self.call_expr(e, st)

    def ev_Starred(self, e, st):
        raise Unsupported("starred expression")

    def ev_ListComp(self, e, st):
        yield from self.comprehension(e, st, "list")

    def ev_GeneratorExp(self, e, st):
        yield from self.comprehension(e, st, "list")

    def ev_SetComp(self, e, st):
        yield from self.comprehension(e, st, "set")

    def ev_DictComp(self, e, st):
        yield from self.comprehension(e, st, "dict")

    def ev_NamedExpr(self, e, st):
        for s1, v in self.ev(e.value, st):
            if isinstance(v, RaiseV):
                yield s1, v
            else:
                yield s1.set_local(e.target.id, v), v


class ConstContainer:
    def __init__(self, fz):
        self.fz = fz


BUILTIN_EXC_NAMES = {"BaseException", "Exception", "ArithmeticError", "ZeroDivisionError", "OverflowError",
                     "AssertionError", "AttributeError", "LookupError", "IndexError", "KeyError", "NameError",
                     "OSError", "RuntimeError", "NotImplementedError", "TypeError", "ValueError", "StopIteration",
                     "UnicodeDecodeError", "TimeoutError", "ConnectionError", "IOError"}
