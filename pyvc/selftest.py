"""setup / self-test: tool versions, source tree parses, engine sanity (one proof, one refutation)."""
import sys, os, subprocess
sys.path.insert(0, os.path.dirname(os.path.dirname(os.path.abspath(__file__))))
import z3
from pyvc.source import Repo
from pyvc.executor import Engine
from pyvc.state import State


def main():
    print("z3", z3.get_version_string())
    for tool in ("/usr/bin/cvc5", "/venv/bin/python"):
        if not os.path.exists(tool):
            print("missing", tool); return 1
    repo = Repo("/repo/src")
    n = 0
    for root, _, files in os.walk("/repo/src/flexstack"):
        for f in files:
            if f.endswith(".py") and "asn1" not in root:
                mod = os.path.relpath(os.path.join(root, f), "/repo/src")[:-3].replace("/", ".")
                if mod.endswith(".__init__"):
                    mod = mod[:-9]
                repo.module(mod); n += 1
    print("parsed modules:", n)
    eng = Engine(repo, "int")
    x = z3.Int("x")
    assert eng.valid((x > 3,), x > 2) and not eng.valid((x > 3,), x > 4)
    eng = Engine(repo, "bv")
    mi, ci, fn = repo.function("flexstack.geonet.basic_header:LT.encode_to_int")
    print("selftest ok")
    return 0


if __name__ == "__main__":
    sys.exit(main())
