"""Contract registry.  Contracts are sidecar declarations keyed by ``module:Class.method``."""
from __future__ import annotations

from typing import Dict, List, Optional

from .shapes import T, Shape  # re-export

REGISTRY: Dict[str, "Contract"] = {}
LEMMAS: Dict[str, "Lemma"] = {}


class Contract:
    def __init__(self, qual, props=(), mode="int", shapes=None, requires=(), ensures=None, raises=None,
                 may_raise=(), modifies=(), returns=None, field_shapes=None, canary=None, cover=None,
                 inline=(), spec_module=None, assumed=False, float_as_real=False, note="", ghost_effect=None,
                 known=None, havoc_on_raise=False, loops=None, uses=None, body_contracts=None, trusted=(),
                 frame_check=True, cuts=None, env=None, raises_unchanged=(), engine_setup=None, native_setup=None,
                 ghost_init=None, opaque=(), callsite_ensures=None, bound=None):
        self.qual = qual
        self.short = qual.split(":")[1]
        self.props = list(props)
        self.mode = mode
        self.shapes = shapes or {}
        self.requires = list(requires)
        self.ensures = dict(ensures or {})
        self.raises = dict(raises or {})          # exception -> condition text over the pre-state ("iff")
        self.may_raise = list(may_raise)          # exceptions that may be raised with no stated condition
        self.modifies = list(modifies)
        self.returns = returns
        self.field_shapes = field_shapes or {}
        self.canary = dict(canary or {})
        self.cover = list(cover or [])
        self.inline = set(inline)
        self.spec_module = spec_module
        self.assumed = assumed                    # True: contract of an external / unverified function
        self.float_as_real = float_as_real
        self.note = note
        self.ghost_effect = ghost_effect
        self.known = known or {}
        self.havoc_on_raise = havoc_on_raise
        self.loops = loops or {}
        self.uses = uses                          # None = all registered contracts may be used at call sites
        self.trusted = list(trusted)
        self.frame_check = frame_check
        self.cuts = cuts or {}
        self.env = env or {}
        self.raises_unchanged = list(raises_unchanged)
        self.engine_setup = engine_setup
        self.native_setup = native_setup
        self.ghost_init = ghost_init
        self.opaque = list(opaque)
        self.callsite_ensures = callsite_ensures    # labels assumed at call sites (None = all)
        self.bound = bound      # stated bound on the INPUT SHAPES of this contract (its obligations are then a bounded
                                # stand-in, discharged by the same solver but not a proof for all inputs)


def contract(qual, **kw) -> Contract:
    c = Contract(qual, **kw)
    import inspect
    c._module = inspect.stack()[1].frame.f_globals.get('__name__', '').split('.')[-1]
    if qual in REGISTRY:
        raise ValueError(f"duplicate contract for {qual}")
    REGISTRY[qual] = c
    return c


class Lemma:
    """A verification condition over contracts / spec functions only (no repository code):
    forall vars satisfying `assume`: `prove`."""

    def __init__(self, name, props=(), mode="int", vars=None, assume=(), prove=None, spec_module=None, uses=(),
                 canary=None, note="", calls=None):
        self.name = name
        self.props = list(props)
        self.mode = mode
        self.vars = vars or {}
        self.assume = list(assume)
        self.prove = dict(prove or {})
        self.spec_module = spec_module
        self.uses = list(uses)
        self.canary = dict(canary or {})
        self.note = note
        self.calls = calls or []     # [(result_name, "qual", {param: expr})]: results of contract-described calls


def lemma(name, **kw) -> Lemma:
    l = Lemma(name, **kw)
    if name in LEMMAS:
        raise ValueError(f"duplicate lemma {name}")
    LEMMAS[name] = l
    return l
