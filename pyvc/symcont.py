"""Symbolic containers: a set of ints as a characteristic array, a bounded deque of ints as an array segment [lo, hi)
with a ghost index map (value -> position) that makes the ring invariant expressible with universal quantifiers only
(DESIGN §5 C06)."""
from __future__ import annotations

import z3

from .values import NONE, Ref, Obj, RaiseV, Unsupported, Opt, NoneV


class SymContMixin:
    def _elt_sort(self):
        return self.T.val(0).sort()

    def make_symset(self, st, name):
        arr = z3.Const(name + ".member", z3.ArraySort(self._elt_sort(), z3.BoolSort()))
        return st.alloc(Obj(None, "set", None, [], {"symbolic": True, "arr": arr}))

    def make_symdeque(self, st, name, maxlen):
        a = z3.Const(name + ".items", z3.ArraySort(z3.IntSort(), self._elt_sort()))
        idx = z3.Const(name + ".index", z3.ArraySort(self._elt_sort(), z3.IntSort()))
        lo, hi = z3.Int(name + ".lo"), z3.Int(name + ".hi")
        st = st.assume(lo <= hi)
        return st.alloc(Obj(None, "deque", None, [], {"symbolic": True, "a": a, "idx": idx, "lo": lo, "hi": hi,
                                                      "maxlen": maxlen}))

    def _upd(self, st, r, **kw):
        o = st.obj(r)
        ex = dict(o.extra)
        ex.update(kw)
        return st.replace_obj(r, Obj(o.cls, o.kind, None, [], ex))

    def _mathint(self, t):
        return z3.BV2Int(t, True) if self.mode == "bv" else t

    def _thint(self, t):
        return z3.Int2BV(t, self.T.val(0).size()) if self.mode == "bv" else t

    def sym_container_contains(self, st, r, item):
        o = st.obj(r)
        if o.kind == "set":
            yield st, z3.Select(o.extra["arr"], self.to_int(item))
            return
        raise Unsupported("'in' on symbolic deque")

    def sym_container_len(self, st, r):
        o = st.obj(r)
        if o.kind == "deque":
            yield st, self._thint(o.extra["hi"] - o.extra["lo"])
            return
        if o.kind == "set":
            card = z3.Function("set.card", o.extra["arr"].sort(), self.T.val(0).sort())
            n = card(o.extra["arr"])
            self.used_assumptions.add("len() of a symbolic set is an uninterpreted non-negative cardinality")
            yield st.assume(n >= self.intval(0)), n
            return
        raise Unsupported("len of symbolic container")

    def sym_container_index(self, st, r, idx):
        o = st.obj(r)
        if o.kind != "deque":
            raise Unsupported("index into symbolic set")
        ex = o.extra
        i = self._mathint(self.to_int(idx))
        n = ex["hi"] - ex["lo"]
        inr = z3.And(i >= -n, i < n)
        if self.feasible(st.pc, z3.Not(inr)):
            yield st.assume(z3.Not(inr)), RaiseV(self.exc("IndexError", "deque index out of range"))
        if self.feasible(st.pc, inr):
            pos = z3.If(i >= 0, ex["lo"] + i, ex["hi"] + i)
            yield st.assume(inr), z3.Select(ex["a"], pos)

    def sym_container_attr(self, st, r, name):
        o = st.obj(r)
        if o.kind == "deque" and name == "maxlen":
            return o.extra["maxlen"]
        return None

    def sym_container_method(self, st, r, name, args, kwargs):
        o = st.obj(r)
        ex = o.extra
        if o.kind == "set":
            x = self.to_int(args[0]) if args else None
            if name == "add":
                yield self._upd(st, r, arr=z3.Store(ex["arr"], x, z3.BoolVal(True))), NONE
            elif name == "discard":
                yield self._upd(st, r, arr=z3.Store(ex["arr"], x, z3.BoolVal(False))), NONE
            elif name == "copy":
                yield st.alloc(Obj(None, "set", None, [], {"symbolic": True, "arr": ex["arr"]}))
            elif name == "remove":
                has = z3.Select(ex["arr"], x)
                if self.feasible(st.pc, has):
                    yield self._upd(st.assume(has), r, arr=z3.Store(ex["arr"], x, z3.BoolVal(False))), NONE
                if self.feasible(st.pc, z3.Not(has)):
                    yield st.assume(z3.Not(has)), RaiseV(self.exc("KeyError", args[0]))
            else:
                raise Unsupported(f"symbolic set .{name}")
            return
        if o.kind == "deque":
            lo, hi, a, idx, ml = ex["lo"], ex["hi"], ex["a"], ex["idx"], ex["maxlen"]
            if name == "popleft":
                empty = lo == hi
                if self.feasible(st.pc, empty):
                    yield st.assume(empty), RaiseV(self.exc("IndexError", "pop from an empty deque"))
                if self.feasible(st.pc, z3.Not(empty)):
                    yield self._upd(st.assume(z3.Not(empty)), r, lo=lo + 1), z3.Select(a, lo)
                return
            if name == "append":
                x = self.to_int(args[0])
                lo2 = lo
                if ml is not None and not isinstance(ml, NoneV):
                    full = (hi - lo) == self._mathint(self.to_int(ml))
                    zero = self._mathint(self.to_int(ml)) == 0
                    lo2 = z3.If(full, lo + 1, lo)
                    if self.feasible(st.pc, zero):
                        yield st.assume(zero), NONE          # deque(maxlen=0) discards everything
                    st = st.assume(z3.Not(zero))
                yield self._upd(st, r, lo=lo2, hi=hi + 1, a=z3.Store(a, hi, x),
                                idx=z3.Store(idx, x, hi)), NONE
                return
            raise Unsupported(f"symbolic deque .{name}")
        raise Unsupported(f"symbolic container .{name}")

    # ---- spec access
    def spec_container_form(self, st, name, args):
        if name == "set_has":
            o = st.obj(args[0])
            return z3.Select(o.extra["arr"], self.to_int(args[1]))
        o = st.obj(args[0])
        ex = o.extra
        if name == "dq_len":
            return self._thint(ex["hi"] - ex["lo"])
        if name == "dq_maxlen":
            return ex["maxlen"]
        if name == "dq_lo":
            return self._thint(ex["lo"])
        if name == "dq_hi":
            return self._thint(ex["hi"])
        if name == "dq_at_pos":
            return z3.Select(ex["a"], self._mathint(self.to_int(args[1])))
        if name == "dq_pos_of":
            return self._thint(z3.Select(ex["idx"], self.to_int(args[1])))
        if name == "dq_at":
            return z3.Select(ex["a"], ex["lo"] + self._mathint(self.to_int(args[1])))
        if name == "dq_idx":
            return self._thint(z3.Select(ex["idx"], self.to_int(args[1])) - ex["lo"])
        raise Unsupported(name)
