"""Integer theories.  'int': mathematical Int (exact for Python ints).  'bv': signed bit-vectors of width W with
a no-overflow side obligation on every << / + / * that could leave the width (so the model provably coincides
with unbounded ints wherever those obligations are discharged)."""
from __future__ import annotations

import z3
from .slicing import fold as _fold

from .values import Unsupported

W = 512


class IntTheory:
    name = "int"

    def __init__(self):
        self.pending = []       # facts about terms just built (drained into the path condition by the executor)

    def take_axioms(self):
        out, self.pending = self.pending, []
        return out

    def const(self, name):
        return z3.Int(name)

    def val(self, n: int):
        return z3.IntVal(n)

    def is_int(self, t):
        return isinstance(t, z3.ArithRef) and t.is_int()

    def as_const(self, t):
        t = _fold(t)
        if z3.is_int_value(t):
            return t.as_long()
        return None

    def to_real(self, t):
        return z3.ToReal(t)

    def from_real_trunc(self, r):
        return z3.If(r >= 0, z3.ToInt(r), -z3.ToInt(-r))

    def floor_real(self, r):
        return z3.ToInt(r)

    def floordiv(self, a, b):
        cb = self.as_const(b)
        if cb is not None and cb > 0:
            return a / b
        return z3.If(b > 0, a / b, (-a) / (-b))

    def mod(self, a, b):
        cb = self.as_const(b)
        if cb is not None and cb > 0:
            return a % b
        return a - b * self.floordiv(a, b)

    def shl(self, a, k, obl):
        ck = self.as_const(k)
        if ck is None:
            raise Unsupported("non-constant shift amount")
        return a * z3.IntVal(2 ** ck)

    def shr(self, a, k):
        ck = self.as_const(k)
        if ck is None:
            raise Unsupported("non-constant shift amount")
        return a / z3.IntVal(2 ** ck)

    def band(self, a, b):
        for x, y in ((a, b), (b, a)):
            c = self.as_const(y)
            if c is not None and c >= 0 and (c & (c + 1)) == 0:
                return x % z3.IntVal(c + 1)
            if c is not None and c > 0:
                # mask of the form ((2^n - 1) << k)
                k = (c & -c).bit_length() - 1
                m = c >> k
                if (m & (m + 1)) == 0:
                    return ((x / z3.IntVal(2 ** k)) % z3.IntVal(m + 1)) * z3.IntVal(2 ** k)
        raise Unsupported("bitwise & on mathematical ints with a non-mask operand (use codec mode)")

    def bor(self, a, b):
        raise Unsupported("bitwise | on mathematical ints (use codec mode)")

    def bxor(self, a, b):
        # x ^ 2**k flips bit k: exact for Python's unbounded two's-complement ints (z3 div / mod are floor-like for a
        # positive divisor, as Python's // and % are)
        for x, y in ((a, b), (b, a)):
            c = self.as_const(y)
            if c is not None and c > 0 and (c & (c - 1)) == 0:
                bit = (x / z3.IntVal(c)) % z3.IntVal(2)
                return z3.If(bit == 0, x + z3.IntVal(c), x - z3.IntVal(c))
            if c == 0:
                return x
        raise Unsupported("bitwise ^ on mathematical ints (use codec mode)")

    def add(self, a, b, obl):
        return a + b

    def sub(self, a, b, obl):
        return a - b

    def mul(self, a, b, obl):
        return a * b

    def neg(self, a):
        return -a

    def lt(self, a, b):
        return a < b

    def le(self, a, b):
        return a <= b

    def model_int(self, m, t):
        v = m.eval(t, model_completion=True)
        return v.as_long()


class BVTheory(IntTheory):
    name = "bv"

    def const(self, name):
        return z3.BitVec(name, W)

    def val(self, n: int):
        return z3.BitVecVal(n, W)

    def is_int(self, t):
        return isinstance(t, z3.BitVecRef) and t.size() == W

    def as_const(self, t):
        t = _fold(t)
        if z3.is_bv_value(t):
            return t.as_signed_long()
        return None

    def fits(self, x, bits):
        lo = z3.BitVecVal(-(1 << (bits - 1)), W)
        hi = z3.BitVecVal((1 << (bits - 1)) - 1, W)
        return z3.And(x >= lo, x <= hi)

    # codec mode keeps bit-vectors and reals apart: conversions are uninterpreted functions (only congruence is
    # available), because bv2int/int2bv on 512-bit terms make every query that touches them intractable.
    # Arithmetic that mixes ints and floats is verified in arithmetic mode.
    def to_real(self, t):
        c = self.as_const(t)
        if c is not None:
            return z3.RealVal(c)
        return z3.Function("codec.int2real", z3.BitVecSort(W), z3.RealSort())(t)

    def from_real_trunc(self, r):
        return z3.Function("codec.real2int_trunc", z3.RealSort(), z3.BitVecSort(W))(r)

    def floor_real(self, r):
        return z3.Function("codec.real2int_floor", z3.RealSort(), z3.BitVecSort(W))(r)

    # division / modulo by anything but a power of two is an uninterpreted function in codec mode (512-bit
    # bvsdiv makes queries intractable); only  0 <= a % c < c  for a constant c > 0 is kept.  Exact reasoning about
    # such arithmetic belongs to arithmetic-mode contracts.
    def floordiv(self, a, b):
        ca, cb = self.as_const(a), self.as_const(b)
        if ca is not None and cb is not None and cb != 0:
            return self.val(ca // cb)
        if cb is not None and cb > 0 and (cb & (cb - 1)) == 0:
            return a >> (cb.bit_length() - 1)
        return z3.Function("codec.floordiv", z3.BitVecSort(W), z3.BitVecSort(W), z3.BitVecSort(W))(a, b)

    def mod(self, a, b):
        ca, cb = self.as_const(a), self.as_const(b)
        if ca is not None and cb is not None and cb != 0:
            return self.val(ca % cb)
        if cb is not None and cb > 0 and (cb & (cb - 1)) == 0:
            return a & z3.BitVecVal(cb - 1, W)
        r = z3.Function("codec.mod", z3.BitVecSort(W), z3.BitVecSort(W), z3.BitVecSort(W))(a, b)
        if cb is not None and cb > 0:
            self.pending.append(z3.And(r >= 0, r < b))
        return r

    def shl(self, a, k, obl):
        ck = self.as_const(k)
        if ck is None:
            raise Unsupported("non-constant shift amount")
        if ck >= W - 1:
            raise Unsupported("shift beyond model width")
        ca = self.as_const(a)
        if ca is None:
            obl("shl-no-overflow", self.fits(a, W - ck))
        elif not (-(1 << (W - ck - 1)) <= ca < (1 << (W - ck - 1))):
            raise Unsupported("constant shift overflows model width")
        return a << ck

    def shr(self, a, k):
        ck = self.as_const(k)
        if ck is None:
            raise Unsupported("non-constant shift amount")
        return a >> min(ck, W - 1)

    def band(self, a, b):
        return a & b

    def bor(self, a, b):
        return a | b

    def bxor(self, a, b):
        return a ^ b

    def add(self, a, b, obl):
        if self.as_const(a) is None or self.as_const(b) is None:
            obl("add-no-overflow", z3.And(self.fits(a, W - 1), self.fits(b, W - 1)))
        return a + b

    def sub(self, a, b, obl):
        if self.as_const(a) is None or self.as_const(b) is None:
            obl("sub-no-overflow", z3.And(self.fits(a, W - 1), self.fits(b, W - 1)))
        return a - b

    def mul(self, a, b, obl):
        ca, cb = self.as_const(a), self.as_const(b)
        if ca is not None and cb is not None:
            return self.val(ca * cb)
        for x, c in ((a, cb), (b, ca)):
            if c is not None:
                k = abs(c).bit_length() + 1
                if k >= W - 1:
                    raise Unsupported("constant factor beyond model width")
                obl("mul-no-overflow", self.fits(x, W - k))
                return a * b
        obl("mul-no-overflow", z3.And(self.fits(a, W // 2 - 1), self.fits(b, W // 2 - 1)))
        return a * b

    def model_int(self, m, t):
        v = m.eval(t, model_completion=True)
        return v.as_signed_long()


def theory(mode: str) -> IntTheory:
    if mode in ("int", "arith"):
        return IntTheory()
    if mode in ("bv", "codec"):
        return BVTheory()
    raise ValueError(mode)
