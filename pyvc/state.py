"""Path state: functional (every update returns a new State sharing unchanged parts)."""
from __future__ import annotations

from typing import Dict, List

from .values import Obj, Ref


class State:
    __slots__ = ("pc", "loc", "heap", "ghost", "held", "nalloc", "trace")

    def __init__(self, pc=(), loc=None, heap=None, ghost=None, held=(), nalloc=0, trace=()):
        self.pc = tuple(pc)
        self.loc: Dict[str, object] = loc if loc is not None else {}
        self.heap: Dict[int, Obj] = heap if heap is not None else {}
        self.ghost: Dict[str, tuple] = ghost if ghost is not None else {}
        self.held = tuple(held)
        self.nalloc = nalloc
        self.trace = tuple(trace)

    def _clone(self, **kw):
        s = State(self.pc, self.loc, self.heap, self.ghost, self.held, self.nalloc, self.trace)
        for k, v in kw.items():
            setattr(s, k, v)
        return s

    def assume(self, c):
        return self._clone(pc=self.pc + (c,))

    def with_loc(self, loc):
        return self._clone(loc=loc)

    def set_local(self, name, v):
        loc = dict(self.loc)
        loc[name] = v
        return self._clone(loc=loc)

    def del_local(self, name):
        loc = dict(self.loc)
        loc.pop(name, None)
        return self._clone(loc=loc)

    def alloc(self, obj: Obj):
        heap = dict(self.heap)
        addr = self.nalloc
        heap[addr] = obj
        return self._clone(heap=heap, nalloc=addr + 1), Ref(addr)

    def obj(self, ref: Ref) -> Obj:
        return self.heap[ref.addr]

    def write_field(self, ref: Ref, name: str, v):
        heap = dict(self.heap)
        o = heap[ref.addr].copy()
        o.f[name] = v
        heap[ref.addr] = o
        return self._clone(heap=heap)

    def replace_obj(self, ref: Ref, o: Obj):
        heap = dict(self.heap)
        heap[ref.addr] = o
        return self._clone(heap=heap)

    def ghost_append(self, log: str, item):
        g = dict(self.ghost)
        g[log] = g.get(log, ()) + (item,)
        return self._clone(ghost=g)

    def ghost_count(self, name, by):
        """ghost counter `name` += by (a theory int term)"""
        g = dict(self.ghost)
        cur = g.get("#" + name)
        g["#" + name] = ((cur[0] + by) if cur else by,)
        return self._clone(ghost=g)

    def ghost_set(self, name, term):
        g = dict(self.ghost)
        g["#" + name] = (term,)
        return self._clone(ghost=g)

    def push_lock(self, lock):
        return self._clone(held=self.held + (lock,))

    def pop_lock(self):
        return self._clone(held=self.held[:-1])

    def note(self, what):
        return self._clone(trace=self.trace + (what,))
