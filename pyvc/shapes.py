"""Shapes: descriptions of symbolic inputs.  ``make`` builds a symbolic value (plus its type invariants),
``concretise`` turns a solver model back into a JSON description the native replay harness can rebuild."""
from __future__ import annotations

import ast
from fractions import Fraction

import z3

from .values import (NONE, Opt, StrV, SymStr, EnumV, Rec, Ref, TupleV, BytesV, Opaque, Obj, Unsupported)


class Shape:
    def __init__(self, kind, **kw):
        self.kind = kind
        self.__dict__.update(kw)

    def __repr__(self):
        return f"Shape({self.kind})"


class T:
    @staticmethod
    def int(lo=None, hi=None):
        return Shape("int", lo=lo, hi=hi)

    @staticmethod
    def float(lo=None, hi=None):
        return Shape("float", lo=lo, hi=hi)

    bool = Shape("bool")
    str = Shape("str")
    none = Shape("none")

    @staticmethod
    def strs(*choices):
        return Shape("strs", choices=list(choices))

    @staticmethod
    def bytes(lo=0, hi=None):
        return Shape("bytes", lo=lo, hi=hi)

    @staticmethod
    def bytes_n(n):
        return Shape("bytes_n", n=n)

    @staticmethod
    def opt(s):
        return Shape("opt", inner=s)

    @staticmethod
    def enum(qual, only=None):
        return Shape("enum", qual=qual, only=only)

    @staticmethod
    def rec(qual, **fields):
        return Shape("rec", qual=qual, fields=fields)

    @staticmethod
    def obj(qual, **fields):
        return Shape("obj", qual=qual, fields=fields)

    @staticmethod
    def tuple(*items):
        return Shape("tuple", items=list(items))

    @staticmethod
    def list(*items):
        return Shape("list", items=list(items))

    @staticmethod
    def dict(_open=False, **entries):
        """entries: key -> shape | (shape, 'optional')"""
        return Shape("dict", entries=entries, open=_open)

    @staticmethod
    def dictk(entries, _open=False):
        return Shape("dict", entries=dict(entries), open=_open)

    @staticmethod
    def opaque(typ, **data):
        """an opaque collaborator; `data` are shapes of values its model keeps (Opaque.data)"""
        return Shape("opaque", typ=typ, data=data)

    @staticmethod
    def const(value):
        return Shape("const", value=value)

    @staticmethod
    def keymap(typ, key, value):
        """dict with symbolic keys of which ONE arbitrary entry (key, maybe present, value) is tracked"""
        return Shape("keymap", typ=typ, key=key, value=value)

    @staticmethod
    def symset():
        return Shape("symset")

    @staticmethod
    def symdeque(maxlen_name=None):
        """bounded deque of ints; maxlen is the int symbol `<name>.maxlen`"""
        return Shape("symdeque")

    @staticmethod
    def modconst(module, name):
        """the value of a module-level constant of the repository (e.g. a table)"""
        return Shape("modconst", module=module, name=name)

    @staticmethod
    def oneof(*alts):
        """case split at input creation: the verification runs once per alternative"""
        return Shape("oneof", alts=list(alts))

    lock = Shape("opaque", typ="lock")
    callback = Shape("opaque", typ="callback")


def expand_oneof(shape):
    """list of shapes without 'oneof' nodes (cartesian expansion)"""
    if not isinstance(shape, Shape):
        return [shape]
    k = shape.kind
    if k == "oneof":
        out = []
        for a in shape.alts:
            out.extend(expand_oneof(a))
        return out
    if k == "opt":
        return [Shape("opt", inner=i) for i in expand_oneof(shape.inner)]
    if k in ("rec", "obj"):
        combos = [{}]
        for f, s in shape.fields.items():
            combos = [dict(c, **{f: x}) for c in combos for x in expand_oneof(s)]
        return [Shape(k, qual=shape.qual, fields=c) for c in combos]
    if k in ("tuple", "list"):
        combos = [[]]
        for s in shape.items:
            combos = [c + [x] for c in combos for x in expand_oneof(s)]
        return [Shape(k, items=c) for c in combos]
    if k == "dict":
        combos = [{}]
        for f, s in shape.entries.items():
            opt = isinstance(s, tuple)
            alts = expand_oneof(s[0] if opt else s)
            combos = [{**c, f: ((x, "optional") if opt else x)} for c in combos for x in alts]
        return [Shape("dict", entries=c, open=shape.open) for c in combos]
    return [shape]


CLASS_SHAPES = {}      # class qual -> default shape of values of that class (filled by the sidecar shape modules)


class Maker:
    def __init__(self, engine):
        self.e = engine

    # ------------------------------------------------------------------ annotation -> shape
    def from_annotation(self, module, ann, depth=0):
        e = self.e
        if ann is None:
            raise Unsupported("parameter without annotation needs an explicit shape")
        if isinstance(ann, ast.Constant) and isinstance(ann.value, str):
            ann = ast.parse(ann.value, mode="eval").body
        if isinstance(ann, ast.Constant) and ann.value is None:
            return T.none
        if isinstance(ann, ast.Name):
            n = ann.id
            if n == "int":
                return T.int()
            if n == "float":
                return T.float()
            if n == "bool":
                return T.bool
            if n == "bytes":
                return T.bytes()
            if n == "str":
                return T.str
            r = e.repo.resolve_name(module, n)
            if r and r[0] == "class":
                return self.class_shape(r[1], depth)
            raise Unsupported(f"annotation {n} needs an explicit shape")
        if isinstance(ann, ast.Subscript):
            head = ast.unparse(ann.value).split(".")[-1]
            if head == "Optional":
                return T.opt(self.from_annotation(module, ann.slice, depth))
            raise Unsupported(f"annotation {ast.unparse(ann)} needs an explicit shape")
        if isinstance(ann, ast.BinOp) and isinstance(ann.op, ast.BitOr):
            l, r = ann.left, ann.right
            if isinstance(r, ast.Constant) and r.value is None:
                return T.opt(self.from_annotation(module, l, depth))
            if isinstance(l, ast.Constant) and l.value is None:
                return T.opt(self.from_annotation(module, r, depth))
        raise Unsupported(f"annotation {ast.unparse(ann)} needs an explicit shape")

    def class_shape(self, ci, depth=0):
        if depth > 6:
            raise Unsupported("recursive shape")
        if ci.qual in CLASS_SHAPES:
            return CLASS_SHAPES[ci.qual]
        if ci.is_enum:
            return T.enum(ci.qual)
        if ci.is_dataclass and ci.frozen:
            return Shape("rec", qual=ci.qual, fields={})
        return Shape("obj", qual=ci.qual, fields={})

    def resolve(self, shape, depth=0):
        """materialise annotation-derived fields so that nested `oneof` alternatives become visible"""
        if depth > 8 or not isinstance(shape, Shape):
            return shape
        k = shape.kind
        if k == "opt":
            return Shape("opt", inner=self.resolve(shape.inner, depth + 1))
        if k == "oneof":
            return Shape("oneof", alts=[self.resolve(a, depth + 1) for a in shape.alts])
        if k in ("tuple", "list"):
            return Shape(k, items=[self.resolve(i, depth + 1) for i in shape.items])
        if k in ("rec", "obj"):
            ci = self.e.repo.class_by_qual(shape.qual)
            fields = dict(shape.fields)
            if ci.is_dataclass:
                for fi in self.e.repo.all_fields(ci):
                    if fi.name not in fields:
                        decl = [c for c in self.e.repo.mro(ci) if any(g is fi for g in c.fields)][0]
                        fields[fi.name] = self.from_annotation(decl.module, fi.annotation)
            return Shape(k, qual=shape.qual, fields={n: self.resolve(f, depth + 1) for n, f in fields.items()})
        return shape

    # ------------------------------------------------------------------ make
    def make(self, st, shape, name):
        """returns (state', value); type invariants are assumed in state'.pc"""
        e = self.e
        k = shape.kind
        if k == "int":
            v = e.T.const(name)
            if e.mode == "bv" and (shape.lo is None or shape.hi is None):
                # codec mode covers integer inputs of magnitude < 2^128 (stated in the trusted base)
                e.used_assumptions.add("codec mode: unbounded integer inputs are taken from (-2^128, 2^128)")
                st = st.assume(z3.And(v > e.intval(-(1 << 128)), v < e.intval(1 << 128)))
            if shape.lo is not None:
                st = st.assume(v >= e.intval(shape.lo))
            if shape.hi is not None:
                st = st.assume(v <= e.intval(shape.hi))
            return st, v
        if k == "float":
            v = z3.Real(name)
            if shape.lo is not None:
                st = st.assume(v >= z3.RealVal(repr(shape.lo)))
            if shape.hi is not None:
                st = st.assume(v <= z3.RealVal(repr(shape.hi)))
            return st, v
        if k == "bool":
            return st, z3.Bool(name)
        if k == "str":
            return st, SymStr(z3.Int(name + ".strid"))
        if k == "strs":
            t = z3.Int(name + ".strid")
            st = st.assume(z3.Or(*[t == e.str_id(c) for c in shape.choices]))
            return st, SymStr(t)
        if k == "none":
            return st, NONE
        if k == "const":
            return st, e.lift(shape.value)
        if k == "modconst":
            mi = e.repo.module(shape.module)
            v = e.module_const(shape.module, shape.name, mi.constants[shape.name])
            from .expr import ConstContainer
            if isinstance(v, ConstContainer):
                return e.thaw(st, v.fz)
            return st, v
        if k == "bytes":
            v, cs = e.sym_bytes(name, shape.lo, shape.hi)
            for c in cs:
                st = st.assume(c)
            return st, v
        if k == "bytes_n":
            if shape.n == 0:
                return st, BytesV([])
            return st, BytesV([("int", z3.BitVec(name, 8 * shape.n), shape.n)])
        if k == "opt":
            st, inner = self.make(st, shape.inner, name)
            return st, Opt(z3.Bool(name + ".isnone"), inner)
        if k == "enum":
            ci = e.repo.class_by_qual(shape.qual)
            members = ci.enum_members
            if e.enum_by_index(ci):
                vals = [i for i, n in enumerate(members) if shape.only is None or n in shape.only]
            else:
                vals = [v for n, v in members.items() if shape.only is None or n in shape.only]
            t = e.T.const(name + ".value")
            st = st.assume(z3.Or(*[t == e.intval(v) for v in vals]))
            return st, EnumV(ci, t)
        if k in ("rec", "obj"):
            ci = e.repo.class_by_qual(shape.qual)
            fields = {}
            finfos = e.repo.all_fields(ci) if ci.is_dataclass else []
            names = [f.name for f in finfos] + [n for n in shape.fields if n not in [f.name for f in finfos]]
            for fname in names:
                if fname in shape.fields:
                    fs = shape.fields[fname]
                else:
                    fi = [f for f in finfos if f.name == fname][0]
                    decl = [c for c in e.repo.mro(ci) if any(g is fi for g in c.fields)][0]
                    fs = self.from_annotation(decl.module, fi.annotation)
                st, fields[fname] = self.make(st, fs, f"{name}.{fname}")
            if k == "rec":
                return st, Rec(ci, fields)
            st, ref = st.alloc(Obj(ci, "obj", fields))
            return st, ref
        if k == "tuple":
            items = []
            for i, s in enumerate(shape.items):
                st, v = self.make(st, s, f"{name}[{i}]")
                items.append(v)
            return st, TupleV(items)
        if k == "list":
            items = []
            for i, s in enumerate(shape.items):
                st, v = self.make(st, s, f"{name}[{i}]")
                items.append(v)
            st, ref = st.alloc(Obj(None, "list", None, items))
            return st, ref
        if k == "dict":
            ents = []
            for key, s in shape.entries.items():
                optional = isinstance(s, tuple)
                s0 = s[0] if optional else s
                st, v = self.make(st, s0, f"{name}[{key!r}]")
                p = z3.Bool(f"{name}[{key!r}].present") if optional else z3.BoolVal(True)
                ents.append([e.lift(key) if not isinstance(key, str) else StrV(key), p, v])
            st, ref = st.alloc(Obj(None, "dict", None, ents, {"open": True} if shape.open else None))
            return st, ref
        if k == "opaque":
            sort = z3.DeclareSort("Obj_" + shape.typ)
            data = None
            if getattr(shape, "data", None):
                data = {}
                for dk, ds in shape.data.items():
                    st, data[dk] = self.make(st, ds, f"{name}.{dk}")
            return st, Opaque(shape.typ, z3.Const(name + ".id", sort), data)
        if k == "keymap":
            sort = z3.DeclareSort("Obj_" + shape.typ)
            o = Opaque(shape.typ, z3.Const(name + ".id", sort))
            st, key = self.make(st, shape.key, name + ".key0")
            st, val = self.make(st, shape.value, name + ".value0")
            g = dict(st.ghost)
            g["map:" + str(o.ident)] = ((key, z3.Bool(name + ".has0"), val),)
            return st._clone(ghost=g), o
        if k == "symset":
            return e.make_symset(st, name)
        if k == "symdeque":
            ml = e.T.const(name + ".maxlen")
            return e.make_symdeque(st, name, ml)
        raise Unsupported(f"shape {k}")

    # ------------------------------------------------------------------ concretise
    def concretise(self, model, shape, name):
        e = self.e
        k = shape.kind

        def ev(t):
            return model.eval(t, model_completion=True)

        if k == "int":
            return e.T.model_int(model, e.T.const(name))
        if k == "float":
            v = ev(z3.Real(name))
            return {"$float": _real_str(v)}
        if k == "bool":
            return bool(z3.is_true(ev(z3.Bool(name))))
        if k == "str":
            return {"$str": int(ev(z3.Int(name + ".strid")).as_long())}
        if k == "strs":
            i = int(ev(z3.Int(name + ".strid")).as_long())
            inv = {v: s for s, v in e._strtab.items()}
            return inv.get(i, shape.choices[0])
        if k == "none":
            return None
        if k == "const":
            return _json_const(shape.value)
        if k == "modconst":
            return {"$modconst": [shape.module, shape.name]}
        if k == "bytes":
            ln = e.T.model_int(model, e.T.const(name + ".len"))
            ln = max(0, min(ln, 65536))
            from .bytesops import BYTE_ARR
            arr = z3.Const(name + ".content", BYTE_ARR)
            bs = bytes(int(ev(z3.Select(arr, z3.IntVal(i))).as_long()) for i in range(ln))
            return {"$bytes": bs.hex()}
        if k == "bytes_n":
            if shape.n == 0:
                return {"$bytes": ""}
            v = ev(z3.BitVec(name, 8 * shape.n)).as_long()
            return {"$bytes": v.to_bytes(shape.n, "big").hex()}
        if k == "opt":
            if z3.is_true(ev(z3.Bool(name + ".isnone"))):
                return None
            return self.concretise(model, shape.inner, name)
        if k == "enum":
            ci = e.repo.class_by_qual(shape.qual)
            v = e.T.model_int(model, e.T.const(name + ".value"))
            if e.enum_by_index(ci):
                return {"$enum": shape.qual, "value": list(ci.enum_members.values())[v]}
            return {"$enum": shape.qual, "value": v}
        if k in ("rec", "obj"):
            ci = e.repo.class_by_qual(shape.qual)
            finfos = e.repo.all_fields(ci) if ci.is_dataclass else []
            names = [f.name for f in finfos] + [n for n in shape.fields if n not in [f.name for f in finfos]]
            out = {}
            for fname in names:
                if fname in shape.fields:
                    fs = shape.fields[fname]
                else:
                    fi = [f for f in finfos if f.name == fname][0]
                    decl = [c for c in e.repo.mro(ci) if any(g is fi for g in c.fields)][0]
                    fs = self.from_annotation(decl.module, fi.annotation)
                out[fname] = self.concretise(model, fs, f"{name}.{fname}")
            return {"$" + k: shape.qual, "fields": out}
        if k == "tuple":
            return {"$tuple": [self.concretise(model, s, f"{name}[{i}]") for i, s in enumerate(shape.items)]}
        if k == "list":
            return [self.concretise(model, s, f"{name}[{i}]") for i, s in enumerate(shape.items)]
        if k == "dict":
            out = []
            for key, s in shape.entries.items():
                optional = isinstance(s, tuple)
                s0 = s[0] if optional else s
                if optional and not z3.is_true(ev(z3.Bool(f"{name}[{key!r}].present"))):
                    continue
                out.append([_json_const(key), self.concretise(model, s0, f"{name}[{key!r}]")])
            return {"$dict": out}
        if k == "opaque":
            return {"$opaque": shape.typ}
        if k == "keymap":
            ent = []
            if z3.is_true(ev(z3.Bool(name + ".has0"))):
                ent.append([self.concretise(model, shape.key, name + ".key0"),
                            self.concretise(model, shape.value, name + ".value0")])
            return {"$keymap": ent}
        if k == "symdeque":
            lo = ev(z3.Int(name + ".lo")).as_long()
            hi = ev(z3.Int(name + ".hi")).as_long()
            a = z3.Const(name + ".items", z3.ArraySort(z3.IntSort(), e.T.val(0).sort()))
            items = [e.T.model_int(model, z3.Select(a, z3.IntVal(i))) for i in range(lo, min(hi, lo + 64))]
            return {"$deque": items, "maxlen": e.T.model_int(model, e.T.const(name + ".maxlen"))}
        if k == "symset":
            return {"$symset": name}
        raise Unsupported(f"concretise {k}")


def _real_str(v):
    if z3.is_rational_value(v):
        return f"{v.numerator_as_long()}/{v.denominator_as_long()}"
    if z3.is_algebraic_value(v):
        return v.approx(20).as_decimal(20).rstrip("?")
    return str(v)


def _json_const(v):
    if isinstance(v, bytes):
        return {"$bytes": v.hex()}
    if isinstance(v, tuple):
        return {"$tuple": [_json_const(x) for x in v]}
    if isinstance(v, float):
        return {"$float": repr(v)}
    return v
