#!/venv/bin/python
"""Native replay: rebuild concrete inputs, call the REAL function, evaluate contract clauses with CPython.
Runs under /venv/bin/python (which has the repository installed); reads a JSON job on stdin, writes JSON on stdout.

job = {"src": "/repo/src", "qual": "pkg.mod:Class.fn", "spec_modules": [...], "inputs": {param: value-json},
       "clauses": {label: text}, "raises": {exc: cond}, "may_raise": [...], "witnesses": {...}, "setup": "module:function"|null}
"""
import ast
import copy
import importlib
import json
import sys
import traceback
from fractions import Fraction


def build(v, strs=None):
    if isinstance(v, list):
        return [build(x, strs) for x in v]
    if not isinstance(v, dict):
        return v
    if "$float" in v:
        s = v["$float"]
        try:
            return float(Fraction(s))
        except Exception:
            return float(s)
    if "$bytes" in v:
        return bytes.fromhex(v["$bytes"])
    if "$tuple" in v:
        return tuple(build(x, strs) for x in v["$tuple"])
    if "$str" in v:
        return f"s{v['$str']}"
    if "$enum" in v:
        mod, name = v["$enum"].split(":")
        return getattr(importlib.import_module(mod), name)(v["value"])
    if "$dict" in v:
        return {(_hashable(build(k, strs))): build(x, strs) for k, x in v["$dict"]}
    if "$modconst" in v:
        return getattr(importlib.import_module(v["$modconst"][0]), v["$modconst"][1])
    if "$keymap" in v:
        return {build(k, strs): build(x, strs) for k, x in v["$keymap"]}
    if "$deque" in v:
        import collections
        return collections.deque(v["$deque"], maxlen=v.get("maxlen"))
    if "$symset" in v:
        return set()
    if "$opaque" in v:
        return Opaque(v["$opaque"])
    for tag in ("$rec", "$obj"):
        if tag in v:
            mod, name = v[tag].split(":")
            cls = getattr(importlib.import_module(mod), name)
            fields = {k: build(x, strs) for k, x in v["fields"].items()}
            obj = object.__new__(cls)
            for k, x in fields.items():
                object.__setattr__(obj, k, x)
            return obj
    return {k: build(x, strs) for k, x in v.items()}


def _hashable(k):
    return tuple(k) if isinstance(k, list) else k


class Opaque:
    """stand-in for an opaque collaborator (callback, lock, logger): records calls, supports `with`"""

    def __init__(self, typ):
        self.typ = typ
        self.calls = []

    def __call__(self, *a, **k):
        self.calls.append((a, k))

    def __enter__(self):
        return self

    def __exit__(self, *a):
        return False

    def __getattr__(self, name):
        if name.startswith("__"):
            raise AttributeError(name)
        return Opaque(self.typ + "." + name)


class SpecRewriter(ast.NodeTransformer):
    def __init__(self, witnesses):
        self.witnesses = witnesses

    def visit_Call(self, node):
        self.generic_visit(node)
        if isinstance(node.func, ast.Name):
            n = node.func.id
            if n == "implies":
                return ast.BoolOp(op=ast.Or(), values=[ast.UnaryOp(op=ast.Not(), operand=node.args[0]), node.args[1]])
            if n == "iff":
                return ast.Compare(left=_boolcall(node.args[0]), ops=[ast.Eq()], comparators=[_boolcall(node.args[1])])
            if n == "ite":
                return ast.IfExp(test=node.args[0], body=node.args[1], orelse=node.args[2])
            if n == "old":
                return ast.Call(func=ast.Name(id="__old__", ctx=ast.Load()),
                                args=[ast.Constant(value=ast.unparse(node.args[0]))], keywords=[])
            if n == "forall":
                lam = node.args[0]
                names = [a.arg for a in lam.args.args]
                return ast.Call(func=lam, args=[ast.Constant(value=self.witnesses.get(x, 0)) for x in names],
                                keywords=[])
        return node


def _boolcall(x):
    return ast.Call(func=ast.Name(id="bool", ctx=ast.Load()), args=[x], keywords=[])


def eval_clause(text, env, old_env, witnesses):
    tree = ast.parse(text, mode="eval")
    tree = ast.fix_missing_locations(SpecRewriter(witnesses).visit(tree))
    code = compile(tree, "<clause>", "eval")

    def __old__(src):
        t = ast.fix_missing_locations(SpecRewriter(witnesses).visit(ast.parse(src, mode="eval")))
        return eval(compile(t, "<old>", "eval"), old_env)

    env = dict(env)
    env["__old__"] = __old__
    return eval(code, env)


def exc_matches(e, name):
    bare = name.split(":")[-1].split(".")[-1]
    return any(k.__name__ == bare for k in type(e).__mro__)


def main():
    job = json.load(sys.stdin)
    sys.path.insert(0, job.get("contracts_dir", "/verif/contracts"))
    if job.get("src"):
        sys.path.insert(0, job["src"])
    out = {"qual": job["qual"]}
    try:
        mod, name = job["qual"].split(":")
        m = importlib.import_module(mod)
        target = m
        parts = name.split(".")
        owner = None
        for p in parts:
            owner = target
            target = getattr(target, p)
        spec_env = {}
        for sm in job.get("spec_modules", []):
            if sm:
                spec_env.update({k: v for k, v in vars(importlib.import_module(sm)).items() if not k.startswith("__")})
        wit = {}
        for k, v in (job.get("witnesses") or {}).items():
            wit[k] = build(v)
        inputs = {k: build(v) for k, v in job["inputs"].items() if not k.startswith("$")}
        if job.get("setup"):
            smod, sfn = job["setup"].split(":")
            inputs = getattr(importlib.import_module(smod), sfn)(inputs)
        old_inputs = copy.deepcopy(inputs)
        old_env = dict(spec_env)
        old_env.update(old_inputs)
        params = list(inputs)
        raised = None
        result = None
        try:
            fn = target
            import inspect
            raw = inspect.getattr_static(owner, parts[-1]) if len(parts) > 1 else None
            args = dict(inputs)
            if isinstance(raw, classmethod):
                args.pop(params[0], None)
            elif len(parts) > 1 and not isinstance(raw, staticmethod):
                selfv = args.pop(params[0])
                fn = getattr(selfv, parts[-1])
            result = fn(*list(args.values()))
        except BaseException as e:        # noqa
            raised = e
        out["raised"] = type(raised).__name__ if raised is not None else None
        out["raised_msg"] = str(raised)[:300] if raised is not None else None
        try:
            out["result"] = repr(result)[:600]
        except Exception:
            out["result"] = "<unrepresentable>"
        verdicts = {}
        env = dict(spec_env)
        env.update(inputs)
        env["result"] = result
        if raised is None:
            for label, text in job.get("clauses", {}).items():
                try:
                    verdicts[label] = bool(eval_clause(text, env, old_env, wit))
                except BaseException as e:    # noqa
                    verdicts[label] = f"error: {type(e).__name__}: {e}"
            for exc, cond in (job.get("raises") or {}).items():
                if isinstance(cond, str):
                    try:
                        must = bool(eval_clause(cond, old_env, old_env, wit))
                        verdicts[f"raises:{exc}:must-raise"] = not must
                    except BaseException as e:  # noqa
                        verdicts[f"raises:{exc}:must-raise"] = f"error: {type(e).__name__}: {e}"
        else:
            allowed = None
            for exc, cond in (job.get("raises") or {}).items():
                if exc_matches(raised, exc):
                    allowed = cond
                    try:
                        verdicts[f"raises:{type(raised).__name__}:only-if"] = True if not isinstance(cond, str) else \
                            bool(eval_clause(cond, old_env, old_env, wit))
                    except BaseException as e:  # noqa
                        verdicts[f"raises:{type(raised).__name__}:only-if"] = f"error: {type(e).__name__}: {e}"
                    break
            if allowed is None:
                if any(exc_matches(raised, x) for x in job.get("may_raise", [])):
                    verdicts["raises:allowed"] = True
                else:
                    verdicts[f"raises:none:{type(raised).__name__}"] = False
        out["verdicts"] = verdicts
    except BaseException as e:          # noqa
        out["error"] = f"{type(e).__name__}: {e}"
        out["traceback"] = traceback.format_exc()[-1500:]
    json.dump(out, sys.stdout)


if __name__ == "__main__":
    main()
