"""The assembled engine."""
from .engine import EngineBase
from .bytesops import BytesMixin
from .expr import ExprMixin
from .stmt import StmtMixin
from .calls import CallMixin
from .builtins_ import BuiltinMixin
from .specs import SpecMixin
from .symcont import SymContMixin
from .loops import LoopMixin


class Engine(LoopMixin, SymContMixin, SpecMixin, BuiltinMixin, CallMixin, StmtMixin, ExprMixin, BytesMixin, EngineBase):
    pass
