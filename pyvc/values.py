"""Symbolic values of the executor.  Scalars (bool / int / float) are raw z3 terms typed by sort:
Bool -> bool, Int or BitVec(W) -> int, Real -> float."""
from __future__ import annotations

import z3


class Unsupported(Exception):
    """The checker met something outside its subset: exit 3, never a verdict."""


class V:
    pass


class NoneV(V):
    def __repr__(self):
        return "None"


NONE = NoneV()


class Opt(V):
    """Optional value: None when ``isnone`` holds, else ``val``."""

    def __init__(self, isnone, val):
        self.isnone = isnone
        self.val = val

    def __repr__(self):
        return f"Opt({self.isnone},{self.val})"


class StrV(V):
    def __init__(self, s: str):
        self.s = s

    def __repr__(self):
        return f"StrV({self.s!r})"


class SymStr(V):
    """String known only up to equality: an integer intern id."""

    def __init__(self, term):
        self.term = term


class EnumV(V):
    def __init__(self, cls, val):
        self.cls = cls      # ClassInfo
        self.val = val      # z3 term (int theory) or python constant for non-int enums

    def __repr__(self):
        return f"EnumV({self.cls.name},{self.val})"


class Rec(V):
    """Immutable record (frozen dataclass instance, or any object treated by value)."""

    def __init__(self, cls, f):
        self.cls = cls
        self.f = f

    def __repr__(self):
        return f"Rec({self.cls.name},{self.f})"


class Ref(V):
    def __init__(self, addr: int):
        self.addr = addr

    def __repr__(self):
        return f"Ref({self.addr})"


class TupleV(V):
    def __init__(self, items):
        self.items = list(items)

    def __repr__(self):
        return f"TupleV({self.items})"


class BytesV(V):
    """segments: ('int', bv_term_of_8n_bits, n) | ('sym', arr, off:int, len_term)"""

    def __init__(self, segs):
        self.segs = list(segs)

    def __repr__(self):
        return f"BytesV({self.segs})"


class ClassV(V):
    def __init__(self, cls):
        self.cls = cls

    def __repr__(self):
        return f"ClassV({self.cls.name})"


class FuncV(V):
    """module-level function, method (unbound) or lambda (with closure env)"""

    def __init__(self, module, node, cls=None, closure=None, qual=None):
        self.module = module
        self.node = node
        self.cls = cls
        self.closure = closure
        self.qual = qual


class BoundV(V):
    def __init__(self, recv, name, func=None):
        self.recv = recv
        self.name = name
        self.func = func    # FuncV when resolved to a source method

    def __repr__(self):
        return f"BoundV({self.recv},{self.name})"


class BuiltinV(V):
    def __init__(self, name):
        self.name = name

    def __repr__(self):
        return f"BuiltinV({self.name})"


class ModuleV(V):
    def __init__(self, name, external=False):
        self.name = name
        self.external = external


class ExcV(V):
    def __init__(self, name: str, cls=None, args=()):
        self.name = name    # bare class name (repo class or builtin)
        self.cls = cls      # ClassInfo for repo classes
        self.args = tuple(args)

    def __repr__(self):
        return f"ExcV({self.name})"


class Opaque(V):
    """A value the engine knows only by a type tag (and optionally an identity term / payload)."""

    def __init__(self, typ: str, ident=None, data=None):
        self.typ = typ
        self.ident = ident
        self.data = data

    def __repr__(self):
        return f"Opaque({self.typ},{self.ident})"


class RaiseV:
    """Marker: evaluation of an expression raised ``exc``."""

    def __init__(self, exc: ExcV):
        self.exc = exc


class Obj:
    """Heap cell. kind: 'obj' (fields dict), 'list' (items list), 'dict' (entries: list of [key, present, value]),
    'set' (items list of python constants / values), 'deque' (items list + maxlen)."""

    __slots__ = ("cls", "kind", "f", "items", "extra")

    def __init__(self, cls=None, kind="obj", f=None, items=None, extra=None):
        self.cls = cls
        self.kind = kind
        self.f = f if f is not None else {}
        self.items = items if items is not None else []
        self.extra = extra

    def copy(self):
        return Obj(self.cls, self.kind, dict(self.f), [list(e) if isinstance(e, list) else e for e in self.items],
                   self.extra)


def is_term(v) -> bool:
    return isinstance(v, z3.ExprRef)


def is_bool(v) -> bool:
    return isinstance(v, z3.BoolRef)


def is_real(v) -> bool:
    return isinstance(v, z3.ArithRef) and v.is_real()


def is_intterm(v) -> bool:
    return (isinstance(v, z3.ArithRef) and v.is_int()) or isinstance(v, z3.BitVecRef)
