"""Python builtins and methods of builtin types."""
from __future__ import annotations

import z3
from .slicing import fold as _fold

from .stmt import MetaIter, DictIter
from .values import (V, NONE, NoneV, Opt, StrV, SymStr, EnumV, Rec, Ref, TupleV, BytesV, ClassV, FuncV, BoundV,
                     BuiltinV, ModuleV, ExcV, Opaque, RaiseV, Obj, Unsupported, is_term, is_bool, is_real)


class BuiltinMixin:
    # ------------------------------------------------------------------ functions
    def call_builtin(self, st, name, args, kwargs):
        if name.startswith("exc:"):
            yield st, ExcV(name[4:], None, args)
            return
        if name.startswith("spec:"):
            yield from self.spec_form(st, name[5:], args, kwargs)
            return
        if name.startswith("ext:"):
            yield from self.call_external(st, name[4:], args, kwargs)
            return
        m = getattr(self, "bi_" + name.replace(".", "_"), None)
        if m is None:
            raise Unsupported(f"builtin {name}")
        yield from m(st, args, kwargs)

    def call_external(self, st, dotted, args, kwargs):
        h = self.external_handlers.get(dotted)
        if h is None:
            raise Unsupported(f"external function {dotted}")
        yield from h(self, st, args, kwargs)

    def spec_form(self, st, name, args, kwargs):
        raise Unsupported(f"spec form {name} outside a specification")

    def bi_print(self, st, args, kwargs):
        yield st, NONE

    def bi_len(self, st, args, kwargs):
        (a,) = args
        if isinstance(a, BytesV):
            yield st, self.bytes_len(a)
        elif isinstance(a, TupleV):
            yield st, self.intval(len(a.items))
        elif isinstance(a, StrV):
            yield st, self.intval(len(a.s))
        elif isinstance(a, Ref):
            o = st.obj(a)
            if o.kind in ("list", "set", "deque"):
                if o.extra and o.extra.get("symbolic"):
                    yield from self.sym_container_len(st, a)
                    return
                yield st, self.intval(len(o.items))
            elif o.kind == "dict":
                if o.extra and o.extra.get("symbolic"):
                    yield from self.sym_container_len(st, a)
                    return
                t = self.intval(0)
                for e in o.items:
                    t = t + z3.If(e[1], self.intval(1), self.intval(0))
                yield st, _fold(t)
            elif o.cls is not None and self.repo.find_method(o.cls, "__len__"):
                yield from self.call_method(st, a, "__len__", [], {})
            else:
                raise Unsupported("len of object")
        elif isinstance(a, MetaIter):
            yield st, self.intval(len(a.items))
        elif isinstance(a, Opaque):
            yield from self.opaque_call(st, a, "__len__", [], {})
        elif isinstance(a, (NoneV,)) or is_term(a):
            yield st, RaiseV(self.exc("TypeError", "object has no len()"))
        elif isinstance(a, Opt):
            for s1, x in self.unwrap(st, a, "len"):
                if isinstance(x, RaiseV):
                    yield s1, x
                else:
                    yield from self.bi_len(s1, [x], {})
        else:
            raise Unsupported(f"len of {type(a).__name__}")

    def bi_int(self, st, args, kwargs):
        if not args:
            yield st, self.intval(0)
            return
        a = args[0]
        if isinstance(a, Opt):
            for s1, x in self.unwrap(st, a, "int()"):
                if isinstance(x, RaiseV):
                    yield s1, x
                else:
                    yield from self.bi_int(s1, [x] + list(args[1:]), kwargs)
            return
        if is_real(a):
            yield st, self.T.from_real_trunc(a)
        elif self.is_num(a):
            yield st, self.to_int(a)
        elif isinstance(a, StrV):
            try:
                yield st, self.intval(int(a.s, *[self.pyconst(x) for x in args[1:]]))
            except ValueError:
                yield st, RaiseV(self.exc("ValueError", "invalid literal for int()"))
        elif isinstance(a, NoneV):
            yield st, RaiseV(self.exc("TypeError", "int() argument None"))
        elif isinstance(a, (Opaque, SymStr)):
            # int(<unknown string>) -> arbitrary int or ValueError
            yield st, RaiseV(self.exc("ValueError", "invalid literal for int()"))
            yield st, self.T.const(self.fresh("int_of_str"))
        else:
            yield st, RaiseV(self.exc("TypeError", "int() argument"))

    def bi_float(self, st, args, kwargs):
        if not args:
            yield st, z3.RealVal(0)
            return
        a = args[0]
        if isinstance(a, Opt):
            for s1, x in self.unwrap(st, a, "float()"):
                if isinstance(x, RaiseV):
                    yield s1, x
                else:
                    yield from self.bi_float(s1, [x], kwargs)
            return
        if self.is_num(a):
            yield st, self.to_real(a)
        elif isinstance(a, StrV):
            try:
                yield st, self.lift(float(a.s))
            except ValueError:
                yield st, RaiseV(self.exc("ValueError", "could not convert string to float"))
        elif isinstance(a, NoneV):
            yield st, RaiseV(self.exc("TypeError", "float() argument None"))
        else:
            raise Unsupported(f"float of {type(a).__name__}")

    def bi_bool(self, st, args, kwargs):
        if not args:
            yield st, z3.BoolVal(False)
            return
        yield st, self.truth(st, args[0])

    def bi_str(self, st, args, kwargs):
        if args and isinstance(args[0], StrV):
            yield st, args[0]
        elif args and self.pyconst(args[0]) is not None and self.is_int(args[0]):
            yield st, StrV(str(self.pyconst(args[0])))
        elif args and isinstance(args[0], (EnumV, Rec)) and getattr(args[0], "cls", None) is not None \
                and self.repo.find_method(args[0].cls, "__str__") is not None:
            yield from self.call_method(st, args[0], "__str__", [], {})      # user-defined __str__
        elif args and isinstance(args[0], Ref) and st.obj(args[0]).cls is not None \
                and self.repo.find_method(st.obj(args[0]).cls, "__str__") is not None:
            yield from self.call_method(st, args[0], "__str__", [], {})
        else:
            yield st, Opaque("str")

    def bi_repr(self, st, args, kwargs):
        yield st, Opaque("str")

    def bi_format(self, st, args, kwargs):
        yield st, Opaque("str")

    def bi_hex(self, st, args, kwargs):
        yield st, Opaque("str")

    def bi_id(self, st, args, kwargs):
        yield st, self.T.const(self.fresh("id"))

    def bi_hash(self, st, args, kwargs):
        # hash() is a fixed (uninterpreted) function of the value: equal values hash equal
        try:
            from .models import flatten_terms
            flat = flatten_terms(self, args[0])
            if flat:
                f = self.get_uf("hash:" + ",".join(str(t.sort()) for t in flat), [t.sort() for t in flat], self.T.val(0).sort())
                yield st, f(*flat)
                return
        except Unsupported:
            pass
        yield st, self.T.const(self.fresh("hash"))

    def bi_callable(self, st, args, kwargs):
        a = args[0]
        yield st, z3.BoolVal(isinstance(a, (FuncV, BoundV, ClassV, BuiltinV)) or
                             (isinstance(a, Opaque) and a.typ in ("callable", "callback")))

    def bi_bytes(self, st, args, kwargs):
        if not args:
            yield st, BytesV([])
            return
        a = args[0]
        if isinstance(a, BytesV):
            yield st, a
            return
        c = self.pyconst(a)
        if isinstance(c, int) and not isinstance(c, bool):
            yield st, self.lift(bytes(c))
            return
        items = self.iter_items(st, a)
        if items is not None:
            segs = []
            s1 = st
            for it in items:
                x = self.to_int(it)
                ok = z3.And(x >= self.intval(0), x < self.intval(256))
                if self.feasible(s1.pc, z3.Not(ok)):
                    yield s1.assume(z3.Not(ok)), RaiseV(self.exc("ValueError", "bytes must be in range(0, 256)"))
                s1 = s1.assume(ok)
                segs.append(("int", self.int_to_bv(x, 8), 1))
            yield s1, BytesV(segs)
            return
        raise Unsupported("bytes() of this argument")

    def bi_bytearray(self, st, args, kwargs):
        yield from self.bi_bytes(st, args, kwargs)

    def bi_abs(self, st, args, kwargs):
        for s1, a in self.unwrap(st, args[0], "abs"):
            if isinstance(a, RaiseV):
                yield s1, a
            elif is_real(a):
                yield s1, z3.If(a >= 0, a, -a)
            else:
                x = self.to_int(a)
                yield s1, z3.If(x >= self.intval(0), x, self.T.neg(x))

    def _minmax(self, st, args, kwargs, is_min):
        if len(args) == 1 and isinstance(args[0], Opaque) and set(kwargs) <= {"default"} and \
                ("map:" + str(args[0].ident)) in st.ghost:
            # min/max over the keys of a symbolic-key map: some bound of the tracked keys that are present
            from .models import _map_entries
            r = self.T.const(self.fresh("extreme_key"))
            s1 = st
            for k, p, v in _map_entries(st, args[0]):
                if self.is_int(k):
                    s1 = s1.assume(z3.Implies(p, (r <= k) if is_min else (r >= k)))
            if "default" in kwargs and self.is_int(kwargs["default"]):
                d = kwargs["default"]
                s1 = s1.assume((r <= d) if is_min else (r >= d))
            self.used_assumptions.add("min/max over a symbolic-key map: an arbitrary bound of the tracked keys")
            yield s1, r
            return
        if kwargs:
            raise Unsupported("min/max with key/default")
        if len(args) == 1:
            items = self.iter_items(st, args[0])
            if items is None:
                raise Unsupported("min/max over non-meta iterable")
            if not items:
                yield st, RaiseV(self.exc("ValueError", "min()/max() arg is an empty sequence"))
                return
        else:
            items = list(args)
        alts = [(st, [])]
        for it in items:
            nxt = []
            for s0, acc in alts:
                for s1, x in self.unwrap(s0, it, "min/max"):
                    if isinstance(x, RaiseV):
                        yield s1, x
                    else:
                        nxt.append((s1, acc + [x]))
            alts = nxt
        for s0, xs in alts:
            acc = xs[0]
            for x in xs[1:]:
                p, q, _ = self.num_pair(acc, x)
                # python keeps the first on ties: min(a,b) = b if b < a else a
                acc = z3.If(q < p, q, p) if is_min else z3.If(q > p, q, p)
            yield s0, acc

    def bi_min(self, st, args, kwargs):
        yield from self._minmax(st, args, kwargs, True)

    def bi_max(self, st, args, kwargs):
        yield from self._minmax(st, args, kwargs, False)

    def bi_round(self, st, args, kwargs):
        a = args[0]
        nd = self.pyconst(args[1]) if len(args) > 1 else None
        if len(args) > 1 and nd is None and not isinstance(args[1], NoneV):
            raise Unsupported("round with symbolic ndigits")
        for s1, x in self.unwrap(st, a, "round"):
            if isinstance(x, RaiseV):
                yield s1, x
                continue
            if not is_real(x):
                yield s1, self.to_int(x)
                continue
            scale = 10 ** (nd or 0)
            y = x * scale
            fl = z3.ToInt(y)
            frac = y - z3.ToReal(fl)
            half_even = z3.If(fl % 2 == 0, fl, fl + 1)
            r = z3.If(frac < z3.RealVal("1/2"), fl, z3.If(frac > z3.RealVal("1/2"), fl + 1, half_even))
            if len(args) > 1 and nd is not None:
                yield s1, z3.ToReal(r) / scale
            else:
                yield s1, (r if self.mode == "int" else z3.Int2BV(r, self.T.val(0).size()))

    def bi_divmod(self, st, args, kwargs):
        import ast
        for s1, q in self.binop(st, ast.FloorDiv, args[0], args[1]):
            if isinstance(q, RaiseV):
                yield s1, q
                continue
            for s2, r in self.binop(s1, ast.Mod, args[0], args[1]):
                yield s2, (r if isinstance(r, RaiseV) else TupleV([q, r]))

    def bi_pow(self, st, args, kwargs):
        import ast
        yield from self.binop(st, ast.Pow, args[0], args[1])

    def bi_isinstance(self, st, args, kwargs):
        v, t = args
        yield st, self.isinstance_(st, v, t)

    def isinstance_(self, st, v, t):
        if isinstance(t, TupleV):
            return z3.Or(*[self.isinstance_(st, v, x) for x in t.items])
        if isinstance(v, Opt):
            return z3.And(z3.Not(v.isnone), self.isinstance_(st, v.val, t))
        if isinstance(t, BuiltinV):
            n = t.name
            if n == "object":
                return z3.BoolVal(True)
            table = {
                "int": lambda: self.is_int(v) or is_bool(v), "bool": lambda: is_bool(v), "float": lambda: is_real(v),
                "str": lambda: isinstance(v, (StrV, SymStr)) or (isinstance(v, Opaque) and v.typ == "str"),
                "bytes": lambda: isinstance(v, BytesV), "tuple": lambda: isinstance(v, TupleV),
                "bytearray": lambda: False,
                "list": lambda: isinstance(v, Ref) and st.obj(v).kind == "list",
                "dict": lambda: isinstance(v, Ref) and st.obj(v).kind == "dict",
                "set": lambda: isinstance(v, Ref) and st.obj(v).kind == "set",
            }
            if n in table:
                return z3.BoolVal(bool(table[n]()))
            if n.startswith("exc:"):
                return z3.BoolVal(isinstance(v, ExcV) and self.exc_matches(st, v, t))
            raise Unsupported(f"isinstance against {n}")
        if isinstance(t, ClassV):
            if isinstance(v, Rec):
                return z3.BoolVal(self.repo.is_subclass(v.cls, t.cls.name))
            if isinstance(v, Ref):
                o = st.obj(v)
                return z3.BoolVal(o.cls is not None and self.repo.is_subclass(o.cls, t.cls.name))
            if isinstance(v, EnumV):
                return z3.BoolVal(self.repo.is_subclass(v.cls, t.cls.name))
            if isinstance(v, ExcV):
                return z3.BoolVal(v.cls is not None and self.repo.is_subclass(v.cls, t.cls.name))
            if isinstance(v, Opaque):
                if v.typ == "object" or v.typ.startswith("any"):
                    raise Unsupported("isinstance of an untyped opaque value")
                return z3.BoolVal(False)
            return z3.BoolVal(False)
        raise Unsupported(f"isinstance against {t!r}")

    def bi_type(self, st, args, kwargs):
        (v,) = args
        if isinstance(v, Rec):
            yield st, ClassV(v.cls)
        elif isinstance(v, Ref) and st.obj(v).cls is not None:
            yield st, ClassV(st.obj(v).cls)
        elif isinstance(v, EnumV):
            yield st, ClassV(v.cls)
        else:
            yield st, Opaque("type")

    def bi_getattr(self, st, args, kwargs):
        o, name = args[0], args[1]
        if not isinstance(name, StrV):
            raise Unsupported("getattr with non-literal name")
        if isinstance(o, Opt):
            if self.feasible(st.pc, o.isnone):
                yield from self.bi_getattr(st.assume(o.isnone), [NONE] + list(args[1:]), kwargs)
            if self.feasible(st.pc, z3.Not(o.isnone)):
                yield from self.bi_getattr(st.assume(z3.Not(o.isnone)), [o.val] + list(args[1:]), kwargs)
            return
        if (is_term(o) or isinstance(o, (NoneV, StrV, BytesV, TupleV))) and name.s not in dir(0) + dir("") + dir(b"") + dir(()):
            # numbers, strings, bytes, tuples, None have no such attribute
            if len(args) > 2:
                yield st, args[2]
            else:
                yield st, RaiseV(self.exc("AttributeError", name.s))
            return
        for s1, r in self.getattr(st, o, name.s):
            if isinstance(r, RaiseV) and r.exc.name == "AttributeError" and len(args) > 2:
                yield s1, args[2]
            else:
                yield s1, r

    def bi_hasattr(self, st, args, kwargs):
        o, name = args
        if not isinstance(name, StrV):
            raise Unsupported("hasattr with non-literal name")
        for s1, r in self.getattr(st, o, name.s):
            yield s1, z3.BoolVal(not (isinstance(r, RaiseV) and r.exc.name == "AttributeError"))

    def bi_range(self, st, args, kwargs):
        cs = [self.pyconst(a) for a in args]
        if any(c is None for c in cs):
            raise Unsupported("range with symbolic bounds (needs a loop spec)")
        r = range(*cs)
        if len(r) > 4096:
            raise Unsupported("range too long to unroll")
        yield st, MetaIter([self.intval(i) for i in r])

    def bi_enumerate(self, st, args, kwargs):
        items = self.iter_items(st, args[0])
        if items is None:
            raise Unsupported("enumerate over non-meta iterable")
        start = self.pyconst(args[1]) if len(args) > 1 else self.pyconst(kwargs["start"]) if "start" in kwargs else 0
        yield st, MetaIter([TupleV([self.intval(i + start), x]) for i, x in enumerate(items)])

    def bi_zip(self, st, args, kwargs):
        lists = [self.iter_items(st, a) for a in args]
        if any(l is None for l in lists):
            raise Unsupported("zip over non-meta iterable")
        yield st, MetaIter([TupleV(list(t)) for t in zip(*lists)])

    def bi_reversed(self, st, args, kwargs):
        items = self.iter_items(st, args[0])
        if items is None:
            raise Unsupported("reversed over non-meta iterable")
        yield st, MetaIter(list(reversed(items)))

    def bi_iter(self, st, args, kwargs):
        items = self.iter_items(st, args[0])
        if items is None:
            raise Unsupported("iter over non-meta iterable")
        yield st, MetaIter(items)

    def bi_list(self, st, args, kwargs):
        if not args:
            yield st.alloc(Obj(None, "list", None, []))
            return
        if isinstance(args[0], DictIter):
            raise Unsupported("list() of a conditional dict view")
        items = self.iter_items(st, args[0])
        if items is None:
            if isinstance(args[0], Ref) and st.obj(args[0]).extra and st.obj(args[0]).extra.get("symbolic"):
                yield from self.sym_container_copy(st, args[0])
                return
            raise Unsupported("list() over non-meta iterable")
        yield st.alloc(Obj(None, "list", None, items))

    def bi_tuple(self, st, args, kwargs):
        if not args:
            yield st, TupleV([])
            return
        items = self.iter_items(st, args[0])
        if items is None:
            raise Unsupported("tuple() over non-meta iterable")
        yield st, TupleV(items)

    def bi_set(self, st, args, kwargs):
        if args and isinstance(args[0], Opaque) and args[0].typ in ("keyed_keys", "sym_seq"):
            yield self.make_symset(st, self.fresh("keyset"))
            return
        if not args and getattr(self, "symbolic_sets", False):
            # an empty set that will hold symbolic ints: characteristic array, everything absent
            s1, ref = self.make_symset(st, self.fresh("set"))
            arr = s1.obj(ref).extra["arr"]
            yield self._upd(s1, ref, arr=z3.K(arr.sort().domain(), z3.BoolVal(False))), ref
            return
        items = self.iter_items(st, args[0]) if args else []
        if items is None:
            raise Unsupported("set() over non-meta iterable")
        out = []
        for x in items:
            dup = False
            for y in out:
                e = _fold(self.eq(st, x, y))
                if z3.is_true(e):
                    dup = True
                    break
                if not z3.is_false(e):
                    raise Unsupported("set() of symbolic elements")
            if not dup:
                out.append(x)
        yield st.alloc(Obj(None, "set", None, out))

    def bi_frozenset(self, st, args, kwargs):
        yield from self.bi_set(st, args, kwargs)

    def bi_dict(self, st, args, kwargs):
        items = []
        if args:
            a = args[0]
            if isinstance(a, Ref) and st.obj(a).kind == "dict":
                items = [list(e) for e in st.obj(a).items]
                extra = st.obj(a).extra
                if extra and extra.get("symbolic"):
                    yield from self.sym_container_copy(st, a)
                    return
            elif isinstance(a, Opaque) and a.typ in self.opaque_handlers and a.typ in getattr(self, "opaque_as_dict", ()):
                yield from self.opaque_call(st, a, "__as_dict__", [], {})      # dict(x) of a mapping-like collaborator
                return
            else:
                pairs = self.iter_items(st, a)
                if pairs is None:
                    raise Unsupported("dict() over non-meta iterable")
                for p in pairs:
                    kv = self.iter_items(st, p)
                    items.append([kv[0], z3.BoolVal(True), kv[1]])
        for k, v in kwargs.items():
            items = [e for e in items if self.key_const(e[0]) != ("s", k)]
            items.append([StrV(k), z3.BoolVal(True), v])
        yield st.alloc(Obj(None, "dict", None, items))

    def bi_sum(self, st, args, kwargs):
        if isinstance(args[0], Opaque) and args[0].typ == "sym_seq":
            n = self.T.const(self.fresh("count"))
            yield st.assume(n >= self.intval(0)), n      # used for `sum(1 for ...)` counts only
            return
        items = self.iter_items(st, args[0])
        if items is None:
            raise Unsupported("sum over non-meta iterable")
        acc = args[1] if len(args) > 1 else self.intval(0)
        import ast
        alts = [(st, acc)]
        for it in items:
            nxt = []
            for s0, a0 in alts:
                for s1, r in self.binop(s0, ast.Add, a0, it):
                    if isinstance(r, RaiseV):
                        yield s1, r
                    else:
                        nxt.append((s1, r))
            alts = nxt
        yield from alts

    def bi_any(self, st, args, kwargs):
        items = self.iter_items(st, args[0])
        if items is None:
            raise Unsupported("any over non-meta iterable")
        yield st, z3.Or(*[self.truth(st, x) for x in items]) if items else z3.BoolVal(False)

    def bi_all(self, st, args, kwargs):
        items = self.iter_items(st, args[0])
        if items is None:
            raise Unsupported("all over non-meta iterable")
        yield st, z3.And(*[self.truth(st, x) for x in items]) if items else z3.BoolVal(True)

    def bi_sorted(self, st, args, kwargs):
        items = self.iter_items(st, args[0])
        if items is None:
            raise Unsupported("sorted over non-meta iterable")
        cs = [self.pyconst(x) if not isinstance(x, StrV) else x.s for x in items]
        if "key" not in kwargs and all(c is not None for c in cs):
            rev = bool(self.pyconst(kwargs["reverse"])) if "reverse" in kwargs else False
            order = sorted(range(len(items)), key=lambda i: cs[i], reverse=rev)
            yield st.alloc(Obj(None, "list", None, [items[i] for i in order]))
            return
        yield from self.symbolic_sorted(st, items, kwargs.get("key"), kwargs.get("reverse"))

    def symbolic_sorted(self, st, items, keyfn, reverse):
        """stable sort of at most 3 elements with symbolic keys: insertion sort, one case split per comparison
        (Python: sorted(..., reverse=True) orders by descending key and keeps the original order of equal keys)"""
        import ast as _ast
        if len(items) > 3:
            raise Unsupported("sorted of more than 3 symbolic elements")
        rev = self.truth(st, reverse) if reverse is not None else z3.BoolVal(False)
        alts = [(st, [])]
        for x in items:                                   # keys, computed left to right
            nxt = []
            for s0, ks in alts:
                if keyfn is None:
                    nxt.append((s0, ks + [x]))
                    continue
                for s1, k in self.call_value(s0, keyfn, [x], {}):
                    if isinstance(k, RaiseV):
                        yield s1, k
                    else:
                        nxt.append((s1, ks + [k]))
            alts = nxt
        for s0, ks in alts:
            orders = [(s0, [])]
            for i in range(len(items)):
                nxt = []
                for s1, order in orders:
                    # insert i after the last element that must stay before it
                    def place(s2, pos):
                        # element at order[pos-1] stays before i iff not (key_i strictly precedes key_prev)
                        if pos == 0:
                            yield s2, 0
                            return
                        j = order[pos - 1]
                        lt = list(self.compare(s2, _ast.Lt, ks[i], ks[j]))
                        gt = list(self.compare(s2, _ast.Gt, ks[i], ks[j]))
                        if len(lt) != 1 or len(gt) != 1 or isinstance(lt[0][1], RaiseV) or isinstance(gt[0][1], RaiseV):
                            raise Unsupported("sorted: keys that cannot be ordered")
                        before = z3.If(rev, self.truth(s2, gt[0][1]), self.truth(s2, lt[0][1]))   # i goes before j
                        if self.feasible(s2.pc, z3.Not(before)):
                            yield s2.assume(z3.Not(before)), pos
                        if self.feasible(s2.pc, before):
                            yield from place(s2.assume(before), pos - 1)
                    for s3, pos in place(s1, len(order)):
                        nxt.append((s3, order[:pos] + [i] + order[pos:]))
                orders = nxt
            for s1, order in orders:
                yield s1.alloc(Obj(None, "list", None, [items[i] for i in order]))

    def bi_object(self, st, args, kwargs):
        yield st.alloc(Obj(None, "obj", {}))

    def bi_object___setattr__(self, st, args, kwargs):
        o, name, v = args
        if isinstance(o, Ref):
            yield st.write_field(o, name.s, v), NONE
        else:
            raise Unsupported("object.__setattr__ on by-value record")

    def bi_int_from_bytes(self, st, args, kwargs):
        b = args[0]
        order = args[1] if len(args) > 1 else kwargs.get("byteorder", StrV("big"))
        signed = kwargs.get("signed")
        if not (isinstance(order, StrV) and order.s == "big"):
            raise Unsupported("little-endian from_bytes")
        sg = bool(self.pyconst(signed)) if signed is not None else False
        if not isinstance(b, BytesV):
            raise Unsupported("int.from_bytes of non-bytes")
        if self.spec_mode and self.bytes_const_len(b) is None:
            # inside a specification a field of a too-short buffer is undefined: the clause is not met / says nothing
            yield st, RaiseV(self.exc("SpecUndefined", "field of a truncated buffer"))
            return
        yield st, self.int_from_bytes(b, sg)

    def bi_bytes_fromhex(self, st, args, kwargs):
        if isinstance(args[0], StrV):
            yield st, self.lift(bytes.fromhex(args[0].s))
        else:
            raise Unsupported("bytes.fromhex of symbolic string")

    def bi_dict_fromkeys(self, st, args, kwargs):
        items = self.iter_items(st, args[0])
        if items is None:
            raise Unsupported("dict.fromkeys over non-meta iterable")
        val = args[1] if len(args) > 1 else NONE
        try:
            ents = []
            for k in items:
                kc = self.key_const(k)
                if not any(self.key_const(e[0]) == kc for e in ents):
                    ents.append([k, z3.BoolVal(True), val])
            yield st.alloc(Obj(None, "dict", None, ents))
            return
        except Unsupported:
            pass
        # symbolic keys: case split on equality with the keys kept so far, so the kept keys are pairwise distinct
        alts = [(st, [])]
        for k in items:
            nxt = []
            for s0, kept in alts:
                dup = z3.Or([self.truth(s0, self.eq(s0, k, q)) for q in kept]) if kept else z3.BoolVal(False)
                if self.feasible(s0.pc, dup):
                    nxt.append((s0.assume(dup), kept))
                if self.feasible(s0.pc, z3.Not(dup)):
                    nxt.append(((s0.assume(z3.Not(dup)) if kept else s0), kept + [k]))
            alts = nxt
        for s0, kept in alts:
            yield s0.alloc(Obj(None, "dict", None, [[k, z3.BoolVal(True), val] for k in kept]))

    def bi_super(self, st, args, kwargs):
        cls = st.loc.get("$class")
        slf = st.loc.get("self")
        if cls is None or slf is None:
            raise Unsupported("super() outside a method")
        yield st, Opaque("super", None, (cls, slf))

    # ------------------------------------------------------------------ methods of builtin values
    def call_builtin_method(self, st, recv, name, args, kwargs):
        if self.is_int(recv) or is_bool(recv):
            if name == "to_bytes":
                yield from self.int_to_bytes(st, self.to_int(recv), args, kwargs)
                return
            if name == "bit_length":
                bl = self.T.const(self.fresh("bit_length"))
                self.used_assumptions.add("int.bit_length(): an uninterpreted non-negative integer")
                yield st.assume(bl >= self.intval(0)), bl
                return
        if is_real(recv) and name == "is_integer":
            yield st, z3.ToReal(z3.ToInt(recv)) == recv
            return
        if isinstance(recv, BytesV):
            yield from self.bytes_method(st, recv, name, args, kwargs)
            return
        if isinstance(recv, (StrV, SymStr)) or (isinstance(recv, Opaque) and recv.typ == "str"):
            yield from self.str_method(st, recv, name, args, kwargs)
            return
        if isinstance(recv, TupleV):
            if name == "index":
                yield from self.seq_index(st, recv.items, args[0])
                return
            if name == "count":
                t = self.intval(0)
                for x in recv.items:
                    t = t + z3.If(self.eq(st, x, args[0]), self.intval(1), self.intval(0))
                yield st, t
                return
        if isinstance(recv, Ref):
            o = st.obj(recv)
            if o.extra and o.extra.get("symbolic"):
                yield from self.sym_container_method(st, recv, name, args, kwargs)
                return
            m = getattr(self, f"m_{o.kind}_{name}", None)
            if m is not None:
                yield from m(st, recv, o, args, kwargs)
                return
        if isinstance(recv, Opaque):
            if recv.typ == "super":
                cls, slf = recv.data
                for base in self.repo.mro(cls)[1:]:
                    if name in base.methods:
                        f = FuncV(base.module, base.methods[name], base, None, f"{base.module}:{base.name}.{name}")
                        yield from self.call_function(st, f, [slf] + list(args), kwargs)
                        return
                if name == "__init__":
                    yield st, NONE
                    return
                raise Unsupported(f"super().{name}")
            yield from self.opaque_call(st, recv, name, args, kwargs)
            return
        raise Unsupported(f"method {name} on {recv!r}")

    def int_to_bytes(self, st, x, args, kwargs):
        n = self.pyconst(args[0]) if args else self.pyconst(kwargs.get("length", self.intval(1)))
        order = args[1] if len(args) > 1 else kwargs.get("byteorder", StrV("big"))
        signed = kwargs.get("signed")
        if n is None:
            # idiom x.to_bytes((x.bit_length() + 7) // 8 or 1, "big"): minimal big-endian image, never raises for x >= 0
            ln = self.to_int(args[0] if args else kwargs.get("length"))
            v, cs = self.sym_bytes(self.fresh("int_image"))
            s1 = st
            for c in cs:
                s1 = s1.assume(c)
            self.used_assumptions.add("int.to_bytes with a computed length: some bytes of that length (overflow not modelled)")
            yield s1.assume(self.bytes_len(v) == ln), v
            return
        if not (isinstance(order, StrV) and order.s == "big"):
            raise Unsupported("little-endian to_bytes")
        sg = bool(self.pyconst(signed)) if signed is not None else False
        if sg:
            ok = z3.And(x >= self.intval(-(1 << (8 * n - 1))), x < self.intval(1 << (8 * n - 1)))
        else:
            ok = z3.And(x >= self.intval(0), x < self.intval(1 << (8 * n)))
        if self.feasible(st.pc, z3.Not(ok)):
            yield st.assume(z3.Not(ok)), RaiseV(self.exc("OverflowError", "int too big to convert"))
        if self.feasible(st.pc, ok):
            yield st.assume(ok), (BytesV([("int", self.int_to_bv(x, 8 * n), n)]) if n else BytesV([]))

    def bytes_method(self, st, b, name, args, kwargs):
        if name == "hex":
            yield st, Opaque("str")
        elif name == "decode":
            yield st, Opaque("str")
            yield st, RaiseV(self.exc("UnicodeDecodeError"))
        elif name == "startswith" and isinstance(args[0], BytesV):
            n = self.bytes_const_len(args[0])
            if n is None:
                raise Unsupported("startswith symbolic prefix")
            ln = self.bytes_len(b)
            ok = ln >= self.intval(n)
            if self.valid(st.pc, ok):
                yield st, self.bytes_eq(st, self.bytes_slice(st, b, 0, n), args[0])
            else:
                raise Unsupported("startswith on bytes of unknown length")
        else:
            raise Unsupported(f"bytes.{name}")

    def str_method(self, st, s, name, args, kwargs):
        def lit(a):
            if isinstance(a, StrV):
                return a.s
            c = self.pyconst(a) if (self.is_int(a) or a is NONE) else None
            return c if (c is not None or a is NONE) else Ellipsis
        lits = [lit(a) for a in args]
        if isinstance(s, StrV) and all(x is not Ellipsis for x in lits) and not kwargs and \
                name in ("lower", "upper", "strip", "lstrip", "rstrip", "startswith", "endswith", "replace", "split", "rsplit",
                         "partition", "rpartition", "find", "count", "isdigit", "title", "capitalize"):
            r = getattr(s.s, name)(*lits)
            if isinstance(r, tuple):
                yield st, TupleV([StrV(x) for x in r])
                return
            if isinstance(r, list):
                yield st.alloc(Obj(None, "list", None, [StrV(x) for x in r]))
            else:
                yield st, self.lift(r)
            return
        if name == "format" or name == "join" or name in ("lower", "upper", "strip"):
            yield st, Opaque("str")
            return
        if name == "encode":
            v, cs = self.sym_bytes(self.fresh("encoded"))
            s1 = st
            for c in cs:
                s1 = s1.assume(c)
            yield s1, v
            return
        raise Unsupported(f"str.{name}")

    def seq_index(self, st, items, x):
        """list.index(x): first match"""
        conds = [self.eq(st, it, x) for it in items]
        none = z3.Not(z3.Or(*conds)) if conds else z3.BoolVal(True)
        if self.feasible(st.pc, none):
            yield st.assume(none), RaiseV(self.exc("ValueError", "x not in list"))
        if conds and self.feasible(st.pc, z3.Not(none)):
            acc = self.intval(len(items) - 1)
            for k in reversed(range(len(items) - 1)):
                acc = z3.If(conds[k], self.intval(k), acc)
            yield st.assume(z3.Not(none)), acc

    # --- list
    def m_list_append(self, st, r, o, args, kwargs):
        nb = o.copy()
        nb.items.append(args[0])
        yield st.replace_obj(r, nb), NONE

    def m_list_extend(self, st, r, o, args, kwargs):
        items = self.iter_items(st, args[0])
        if items is None:
            raise Unsupported("extend with non-meta iterable")
        nb = o.copy()
        nb.items.extend(items)
        yield st.replace_obj(r, nb), NONE

    def m_list_insert(self, st, r, o, args, kwargs):
        i = self.pyconst(args[0])
        if i is None:
            raise Unsupported("insert at symbolic index")
        nb = o.copy()
        nb.items.insert(i, args[1])
        yield st.replace_obj(r, nb), NONE

    def m_list_pop(self, st, r, o, args, kwargs):
        i = self.pyconst(args[0]) if args else -1
        if i is None:
            raise Unsupported("pop at symbolic index")
        if not o.items or not (-len(o.items) <= i < len(o.items)):
            yield st, RaiseV(self.exc("IndexError", "pop from empty list"))
            return
        nb = o.copy()
        v = nb.items.pop(i)
        yield st.replace_obj(r, nb), v

    def m_list_clear(self, st, r, o, args, kwargs):
        yield st.replace_obj(r, Obj(o.cls, o.kind, None, [], o.extra)), NONE

    def m_list_copy(self, st, r, o, args, kwargs):
        yield st.alloc(Obj(None, "list", None, list(o.items)))

    def m_list_index(self, st, r, o, args, kwargs):
        yield from self.seq_index(st, o.items, args[0])

    def m_list_remove(self, st, r, o, args, kwargs):
        conds = [self.eq(st, it, args[0]) for it in o.items]
        prev_none = z3.BoolVal(True)
        for k, c in enumerate(conds):
            hit = z3.And(prev_none, c)
            if self.feasible(st.pc, hit):
                nb = o.copy()
                del nb.items[k]
                yield st.assume(hit).replace_obj(r, nb), NONE
            prev_none = z3.And(prev_none, z3.Not(c))
        if self.feasible(st.pc, prev_none):
            yield st.assume(prev_none), RaiseV(self.exc("ValueError", "list.remove(x): x not in list"))

    def m_list_sort(self, st, r, o, args, kwargs):
        raise Unsupported("list.sort")

    def m_list_reverse(self, st, r, o, args, kwargs):
        nb = o.copy()
        nb.items.reverse()
        yield st.replace_obj(r, nb), NONE

    def m_list_count(self, st, r, o, args, kwargs):
        t = self.intval(0)
        for x in o.items:
            t = t + z3.If(self.eq(st, x, args[0]), self.intval(1), self.intval(0))
        yield st, t

    # --- set
    def m_set_add(self, st, r, o, args, kwargs):
        x = args[0]
        maybe = []
        for y in o.items:
            e = _fold(self.eq(st, x, y))
            if z3.is_true(e):
                yield st, NONE
                return
            if not z3.is_false(e):
                maybe.append(e)
        if maybe:
            # equality with an element already in the set is not decided syntactically: case split
            dup = z3.Or(*maybe)
            if self.feasible(st.pc, dup):
                yield st.assume(dup), NONE
            if not self.feasible(st.pc, z3.Not(dup)):
                return
            st = st.assume(z3.Not(dup))
        nb = o.copy()
        nb.items.append(x)
        yield st.replace_obj(r, nb), NONE

    def m_set_discard(self, st, r, o, args, kwargs):
        x = args[0]
        nb = o.copy()
        keep = []
        for y in o.items:
            e = _fold(self.eq(st, x, y))
            if z3.is_true(e):
                continue
            if not z3.is_false(e):
                raise Unsupported("set.discard of symbolic element")
            keep.append(y)
        nb.items = keep
        yield st.replace_obj(r, nb), NONE

    def m_set_remove(self, st, r, o, args, kwargs):
        n0 = len(o.items)
        for s1, _ in self.m_set_discard(st, r, o, args, kwargs):
            if len(s1.obj(r).items) == n0:
                yield st, RaiseV(self.exc("KeyError", args[0]))
            else:
                yield s1, NONE

    def m_set_copy(self, st, r, o, args, kwargs):
        yield st.alloc(Obj(None, "set", None, list(o.items)))

    def m_set_clear(self, st, r, o, args, kwargs):
        yield st.replace_obj(r, Obj(None, "set", None, [])), NONE

    # --- dict
    def m_dict_get(self, st, r, o, args, kwargs):
        default = args[1] if len(args) > 1 else kwargs.get("default", NONE)
        yield from self.dict_get(st, o, args[0], default)

    def m_dict_items(self, st, r, o, args, kwargs):
        yield st, self.dict_view(o, lambda e: TupleV([e[0], e[2]]))

    def m_dict_keys(self, st, r, o, args, kwargs):
        yield st, self.dict_view(o, lambda e: e[0])

    def m_dict_values(self, st, r, o, args, kwargs):
        yield st, self.dict_view(o, lambda e: e[2])

    def dict_view(self, o, f):
        ents = []
        cond = False
        for e in o.items:
            p = _fold(e[1])
            if z3.is_false(p):
                continue
            if not z3.is_true(p):
                cond = True
            ents.append((e[1], f(e)))
        if cond:
            return DictIter(ents)
        return MetaIter([x for _, x in ents])

    def m_dict_pop(self, st, r, o, args, kwargs):
        key = args[0]
        has_default = len(args) > 1
        if isinstance(key, Opt):
            # None is never one of the (integer / string) keys of the modelled dicts
            if self.feasible(st.pc, key.isnone):
                s0 = st.assume(key.isnone)
                yield (s0, args[1]) if has_default else (s0, RaiseV(self.exc("KeyError", key)))
            if self.feasible(st.pc, z3.Not(key.isnone)):
                yield from self.m_dict_pop(st.assume(z3.Not(key.isnone)), r, o, [key.val] + list(args[1:]), kwargs)
            return
        if self.is_int(key) and self.pyconst(key) is None:
            for s1, k1 in self.split_symbolic_int_key(st, o, key):
                if k1 is None:
                    yield (s1, args[1]) if has_default else (s1, RaiseV(self.exc("KeyError", key)))
                elif k1 is key:
                    raise Unsupported("pop by a symbolic dict key")
                else:
                    yield from self.m_dict_pop(s1, r, s1.obj(r), [k1] + list(args[1:]), kwargs)
            return
        kc = self.key_const(key)
        for i, e in enumerate(o.items):
            if self.key_const(e[0]) == kc:
                p = e[1]
                if self.feasible(st.pc, p):
                    nb = o.copy()
                    nb.items[i] = [e[0], z3.BoolVal(False), e[2]]
                    yield st.assume(p).replace_obj(r, nb), e[2]
                if self.feasible(st.pc, z3.Not(p)):
                    s1 = st.assume(z3.Not(p))
                    yield (s1, args[1]) if has_default else (s1, RaiseV(self.exc("KeyError", key)))
                return
        if o.extra and o.extra.get("open"):
            raise Unsupported("pop of undeclared key from open dict")
        yield (st, args[1]) if has_default else (st, RaiseV(self.exc("KeyError", key)))

    def m_dict_setdefault(self, st, r, o, args, kwargs):
        key = args[0]
        default = args[1] if len(args) > 1 else NONE
        kc = self.key_const(key)
        for i, e in enumerate(o.items):
            if self.key_const(e[0]) == kc:
                p = e[1]
                if self.feasible(st.pc, p):
                    yield st.assume(p), e[2]
                if self.feasible(st.pc, z3.Not(p)):
                    nb = o.copy()
                    nb.items[i] = [e[0], z3.BoolVal(True), default]
                    yield st.assume(z3.Not(p)).replace_obj(r, nb), default
                return
        nb = o.copy()
        nb.items.append([key, z3.BoolVal(True), default])
        yield st.replace_obj(r, nb), default

    def m_dict_update(self, st, r, o, args, kwargs):
        nb = o.copy()
        src = []
        if args:
            a = args[0]
            if not (isinstance(a, Ref) and st.obj(a).kind == "dict"):
                raise Unsupported("dict.update with non-dict")
            src = [list(e) for e in st.obj(a).items]
        src += [[StrV(k), z3.BoolVal(True), v] for k, v in kwargs.items()]
        for e in src:
            kc = self.key_const(e[0])
            for i, d in enumerate(nb.items):
                if self.key_const(d[0]) == kc:
                    p = _fold(e[1])
                    if z3.is_true(p):
                        nb.items[i] = [d[0], z3.BoolVal(True), e[2]]
                    else:
                        nb.items[i] = [d[0], z3.Or(d[1], e[1]), self.merge(st, e[1], e[2], d[2])]
                    break
            else:
                nb.items.append(e)
        yield st.replace_obj(r, nb), NONE

    def m_dict_copy(self, st, r, o, args, kwargs):
        yield st.alloc(Obj(None, "dict", None, [list(e) for e in o.items], o.extra))

    def m_dict_clear(self, st, r, o, args, kwargs):
        yield st.replace_obj(r, Obj(None, "dict", None, [], None)), NONE

    # --- deque (meta-level, bounded by maxlen when constant)
    def m_deque_append(self, st, r, o, args, kwargs):
        nb = o.copy()
        nb.items.append(args[0])
        ml = (o.extra or {}).get("maxlen")
        if ml is not None and len(nb.items) > ml:
            nb.items.pop(0)
        yield st.replace_obj(r, nb), NONE

    def m_deque_popleft(self, st, r, o, args, kwargs):
        if not o.items:
            yield st, RaiseV(self.exc("IndexError", "pop from an empty deque"))
            return
        nb = o.copy()
        v = nb.items.pop(0)
        yield st.replace_obj(r, nb), v

    def m_deque_clear(self, st, r, o, args, kwargs):
        yield st.replace_obj(r, Obj(None, "deque", None, [], o.extra)), NONE

    # ------------------------------------------------------------------ symbolic containers (overridable)
    def sym_container_contains(self, st, r, item):
        raise Unsupported("symbolic container")

    def sym_container_len(self, st, r):
        raise Unsupported("symbolic container")

    def sym_container_index(self, st, r, idx):
        raise Unsupported("symbolic container")

    def sym_container_setitem(self, st, r, key, v):
        raise Unsupported("symbolic container")

    def sym_container_copy(self, st, r):
        raise Unsupported("symbolic container")

    def sym_container_method(self, st, r, name, args, kwargs):
        raise Unsupported("symbolic container")

    def keyed_dictcomp(self, e, st, it):
        """{k: v for k, v in m.items() if cond} over a symbolic-key map (identity on kept entries only)"""
        import ast
        from .models import keyed_map_filter
        g = e.generators[0]
        if not (isinstance(e.key, ast.Name) and isinstance(e.value, ast.Name) and isinstance(g.target, ast.Tuple)
                and [t.id for t in g.target.elts] == [e.key.id, e.value.id]):
            raise Unsupported("dict comprehension over a keyed map must be an identity restriction")
        saved = st.loc

        def keep(s0, k, v, p):
            s1 = s0.assume(p) if self.feasible(s0.pc, p) else None
            if s1 is None:
                yield s0, z3.BoolVal(False)
                return
            s1 = s1.set_local(e.key.id, k).set_local(e.value.id, v)
            alts = [(s1, z3.BoolVal(True))]
            for cnd in g.ifs:
                nn = []
                for s2, c0 in alts:
                    for s3, cv in self.ev(cnd, s2):
                        if isinstance(cv, RaiseV):
                            raise Unsupported("condition of a keyed-map comprehension raises")
                        nn.append((s3, z3.And(c0, self.truth(s3, cv))))
                alts = nn
            for s2, c in alts:
                # drop the assumption `p` again: the entry may be absent, then it simply stays absent
                yield s2._clone(pc=s0.pc + tuple(z3.Implies(p, x) for x in s2.pc[len(s0.pc):])).with_loc(saved), c

        yield from keyed_map_filter(self, st, it.data["map"], keep)

    # ------------------------------------------------------------------ comprehensions
    def comprehension(self, e, st, kind):
        import ast
        if len(e.generators) != 1:
            raise Unsupported("nested comprehension")
        g = e.generators[0]
        for s1, it in self.ev(g.iter, st):
            if isinstance(it, RaiseV):
                yield s1, it
                continue
            if isinstance(it, Opaque) and it.typ == "keyed_items" and kind == "dict":
                yield from self.keyed_dictcomp(e, s1, it)
                continue
            if isinstance(it, Opaque) and it.typ in ("keyed_values", "keyed_keys", "keyed_items") and kind == "list":
                # a generator / list over the entries of a symbolic-key map: an unknown number of unknown elements
                self.used_assumptions.add("comprehensions over symbolic-key maps yield an arbitrary sequence "
                                          "(their element-wise content is not modelled)")
                yield s1, Opaque("sym_seq")
                continue
            items = self.iter_items(s1, it)
            if items is None:
                if isinstance(it, DictIter):
                    raise Unsupported("comprehension over conditional dict view")
                raise Unsupported(f"comprehension over non-meta iterable at line {e.lineno}")
            saved = s1.loc
            alts = [(s1, [])]
            for x in items:
                nxt = []
                for s0, acc in alts:
                    for s2, r in self.assign(s0, g.target, x):
                        if isinstance(r, RaiseV):
                            yield s2.with_loc(saved), r
                            continue
                        conds_alts = [(s2, z3.BoolVal(True))]
                        for cnd in g.ifs:
                            nn = []
                            for s3, c0 in conds_alts:
                                for s4, cv in self.ev(cnd, s3):
                                    if isinstance(cv, RaiseV):
                                        yield s4.with_loc(saved), cv
                                    else:
                                        nn.append((s4, z3.And(c0, self.truth(s4, cv))))
                            conds_alts = nn
                        for s3, c in conds_alts:
                            for keep in (True, False):
                                cc = c if keep else z3.Not(c)
                                if not self.feasible(s3.pc, cc):
                                    continue
                                s4 = s3.assume(cc) if not z3.is_true(_fold(cc)) else s3
                                if not keep:
                                    nxt.append((s4, acc))
                                    continue
                                if kind == "dict":
                                    for s5, kv in self.ev_many([e.key, e.value], s4):
                                        if isinstance(kv, RaiseV):
                                            yield s5.with_loc(saved), kv
                                        else:
                                            nxt.append((s5, acc + [kv]))
                                else:
                                    for s5, v in self.ev(e.elt, s4):
                                        if isinstance(v, RaiseV):
                                            yield s5.with_loc(saved), v
                                        else:
                                            nxt.append((s5, acc + [v]))
                alts = nxt
            for s0, acc in alts:
                s0 = s0.with_loc(saved)
                if kind == "list":
                    yield s0.alloc(Obj(None, "list", None, acc))
                elif kind == "set":
                    yield s0.alloc(Obj(None, "set", None, acc))
                else:
                    ents = []
                    for k, v in acc:
                        kc = self.key_const(k)
                        ents = [x for x in ents if self.key_const(x[0]) != kc]
                        ents.append([k, z3.BoolVal(True), v])
                    yield s0.alloc(Obj(None, "dict", None, ents))
