"""bytes as a list of segments (DESIGN §1.9)."""
from __future__ import annotations

import z3
from .slicing import fold as _fold

from .values import BytesV, Unsupported, is_term

BYTE_ARR = z3.ArraySort(z3.IntSort(), z3.BitVecSort(8))


class BytesMixin:
    def sym_bytes(self, name, lo=None, hi=None):
        """fresh symbolic bytes value; returns (value, constraints)"""
        arr = z3.Const(name + ".content", BYTE_ARR)
        ln = self.T.const(name + ".len")
        cs = [ln >= self.intval(0 if lo is None else lo)]
        if hi is not None:
            cs.append(ln <= self.intval(hi))
        return BytesV([("sym", arr, 0, ln)]), cs

    def seg_len(self, g):
        return self.intval(g[2]) if g[0] == "int" else g[3]

    def bytes_len(self, b: BytesV):
        t = self.intval(0)
        c = 0
        syms = []
        for g in b.segs:
            if g[0] == "int":
                c += g[2]
            else:
                syms.append(g[3])
        t = self.intval(c)
        for s in syms:
            t = t + s
        return t

    def bytes_const_len(self, b: BytesV):
        n = 0
        for g in b.segs:
            if g[0] != "int":
                return None
            n += g[2]
        return n

    def bytes_as_bv(self, b: BytesV):
        parts = []
        for g in b.segs:
            if g[0] != "int":
                raise Unsupported("integer image of bytes with symbolic length")
            parts.append(g[1])
        if not parts:
            raise Unsupported("integer image of empty bytes")
        return parts[0] if len(parts) == 1 else z3.Concat(*parts)

    def bytes_norm(self, b: BytesV) -> BytesV:
        """merge adjacent constant-length segments, drop empty ones"""
        out = []
        for g in b.segs:
            if g[0] == "int":
                if g[2] == 0:
                    continue
                if out and out[-1][0] == "int":
                    p = out.pop()
                    out.append(("int", z3.Concat(p[1], g[1]), p[2] + g[2]))
                else:
                    out.append(g)
            else:
                out.append(g)
        return BytesV(out)

    def bytes_concat(self, a: BytesV, b: BytesV) -> BytesV:
        return BytesV(a.segs + b.segs)

    def int_from_bytes(self, b: BytesV, signed=False):
        """big-endian int of constant-length bytes, as a theory int"""
        n = self.bytes_const_len(b)
        if n is None:
            raise Unsupported("int.from_bytes on bytes of symbolic length")
        if n == 0:
            return self.intval(0)
        bv = self.bytes_as_bv(b)
        return self.bv_to_int(bv, signed)

    def bv_to_int(self, bv, signed=False):
        if self.mode == "bv":
            from .theory import W
            if bv.size() > W - 1:
                raise Unsupported("bytes wider than the bit-vector model")
            return z3.SignExt(W - bv.size(), bv) if signed else z3.ZeroExt(W - bv.size(), bv)
        c = _fold(bv)
        if z3.is_bv_value(c):
            return self.intval(c.as_signed_long() if signed else c.as_long())
        return z3.BV2Int(bv, is_signed=signed)

    def int_to_bv(self, x, nbits):
        """low nbits of theory int x"""
        if self.mode == "bv":
            return z3.Extract(nbits - 1, 0, x)
        c = self.T.as_const(x)
        if c is not None:
            return z3.BitVecVal(c, nbits)
        return z3.Int2BV(x, nbits)

    def const_index(self, st, i):
        c = self.pyconst(i)
        if c is None:
            raise Unsupported("symbolic index into bytes")
        return c

    def bytes_slice(self, st, b: BytesV, lo, hi):
        """b[lo:hi] with python-constant lo (>=0) and hi (None = end, or constant >= 0)"""
        b = self.bytes_norm(b)
        if lo is None:
            lo = 0
        if lo < 0 or (hi is not None and hi < 0):
            return self.bytes_slice_neg(st, b, lo, hi)
        if hi is not None and hi <= lo:
            return BytesV([])
        out = []
        pos = 0            # constant offset consumed so far (only valid while all previous segments were constant)
        segs = list(b.segs)
        i = 0
        while i < len(segs):
            g = segs[i]
            if g[0] == "int":
                n = g[2]
                a = max(lo, pos)
                e = pos + n if hi is None else min(hi, pos + n)
                if a < e:
                    hi_bit = 8 * (pos + n - a) - 1
                    lo_bit = 8 * (pos + n - e)
                    out.append(("int", z3.Extract(hi_bit, lo_bit, g[1]), e - a))
                pos += n
                if hi is not None and pos >= hi:
                    return BytesV(out)
                i += 1
            else:
                # symbolic-length segment: must be the last one
                if i != len(segs) - 1:
                    raise Unsupported("slice across a symbolic-length segment that is not last")
                _, arr, off, ln = g
                a = max(lo - pos, 0)
                if hi is None:
                    newlen = z3.If(ln >= self.intval(a), ln - self.intval(a), self.intval(0)) if a else ln
                    out.append(("sym", arr, off + a, _fold(newlen)))
                    return BytesV(out)
                e = hi - pos
                if not self.valid(st.pc, ln >= self.intval(e)):
                    raise Unsupported(f"slice [{lo}:{hi}] of bytes not proved to be long enough")
                if e > a:
                    elems = [z3.Select(arr, z3.IntVal(off + k)) for k in range(a, e)]
                    out.append(("int", z3.Concat(*elems) if len(elems) > 1 else elems[0], e - a))
                return BytesV(out)
        if hi is not None and pos < hi and False:
            pass
        return BytesV(out)

    def bytes_slice_neg(self, st, b, lo, hi):
        n = self.bytes_const_len(b)
        if n is None:
            raise Unsupported("negative slice index on bytes of symbolic length")
        lo2 = max(n + lo, 0) if lo < 0 else lo
        hi2 = n if hi is None else (max(n + hi, 0) if hi < 0 else hi)
        return self.bytes_slice(st, b, lo2, hi2)

    def bytes_index(self, st, b: BytesV, i: int):
        """b[i] as theory int, for constant i proved in range; returns None if not provably in range"""
        if i < 0:
            n = self.bytes_const_len(b)
            if n is None:
                raise Unsupported("negative index on symbolic-length bytes")
            i = n + i
        s = self.bytes_slice(st, b, i, i + 1)
        return self.bv_to_int(self.bytes_as_bv(s))

    def bytes_eq(self, st, a: BytesV, b: BytesV):
        a, b = self.bytes_norm(a), self.bytes_norm(b)
        sa, sb = list(a.segs), list(b.segs)
        cs = []
        while sa and sb:
            x, y = sa[0], sb[0]
            if x[0] == "int" and y[0] == "int":
                n = min(x[2], y[2])
                hx = z3.Extract(8 * x[2] - 1, 8 * (x[2] - n), x[1])
                hy = z3.Extract(8 * y[2] - 1, 8 * (y[2] - n), y[1])
                cs.append(hx == hy)
                sa.pop(0)
                sb.pop(0)
                if x[2] > n:
                    sa.insert(0, ("int", z3.Extract(8 * (x[2] - n) - 1, 0, x[1]), x[2] - n))
                if y[2] > n:
                    sb.insert(0, ("int", z3.Extract(8 * (y[2] - n) - 1, 0, y[1]), y[2] - n))
            elif x[0] == "sym" and y[0] == "sym":
                if len(sa) == 1 and len(sb) == 1:
                    if x[1].eq(y[1]) and x[2] == y[2]:
                        cs.append(x[3] == y[3])
                    else:
                        k = z3.Int(self.fresh("bi"))
                        body = z3.Implies(z3.And(k >= 0, k < self._as_mathint(x[3])),
                                          z3.Select(x[1], k + x[2]) == z3.Select(y[1], k + y[2]))
                        cs.append(z3.And(x[3] == y[3], z3.ForAll([k], body)))
                    sa.pop(0)
                    sb.pop(0)
                else:
                    raise Unsupported("bytes equality with inner symbolic segments")
            else:
                # one constant-length segment against a symbolic-length one: peel the constant part off the
                # symbolic segment (its length must cover it) and go on with the remainder
                swapped = x[0] == "sym"
                if swapped:
                    x, y = y, x
                n = x[2]
                _, arr, off, ln = y
                cs.append(ln >= self.intval(n))
                elems = [z3.Select(arr, z3.IntVal(off + k)) for k in range(n)]
                cs.append(x[1] == (z3.Concat(*elems) if len(elems) > 1 else elems[0]))
                rem = ("sym", arr, off + n, ln - self.intval(n))
                if swapped:
                    sb.pop(0)
                    sa[0] = rem
                else:
                    sa.pop(0)
                    sb[0] = rem
        for rest in (sa, sb):
            for g in rest:
                if g[0] == "int":
                    cs.append(z3.BoolVal(False))
                else:
                    cs.append(g[3] == self.intval(0))
        return z3.And(*cs) if cs else z3.BoolVal(True)

    def _as_mathint(self, t):
        if self.mode == "bv":
            return z3.BV2Int(t, is_signed=True)
        return t
