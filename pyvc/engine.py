"""Symbolic executor over the Python AST of the real repository functions.

ev(expr, st)  -> iterator of (State, value | RaiseV)
ex(stmts, st) -> iterator of (State, outcome) with outcome in ('fall',) ('ret', v) ('raise', ExcV) ('break',) ('continue',)
"""
from __future__ import annotations

import ast
import itertools
from typing import Iterator, List, Optional, Tuple

import z3
from .slicing import fold as _fold

from .source import Repo, ClassInfo, strip_docstring, is_static, is_classmethod, is_property, BUILTIN_EXC, \
    builtin_exc_subclass
from .state import State
from .theory import theory, W
from .values import (V, NONE, NoneV, Opt, StrV, SymStr, EnumV, Rec, Ref, TupleV, BytesV, ClassV, FuncV, BoundV,
                     BuiltinV, ModuleV, ExcV, Opaque, RaiseV, Obj, Unsupported, is_term, is_bool, is_real)

FALL = ("fall",)
BREAK = ("break",)
CONTINUE = ("continue",)

LOGGER_TYPES = {"logger"}


class Obligation:
    def __init__(self, name, pc, goal, kind="ensures", meta=None):
        self.name = name
        self.pc = tuple(pc)
        self.goal = goal
        self.kind = kind
        self.meta = meta or {}


class EngineBase:
    def __init__(self, repo: Repo, mode: str = "int", contracts=None, inline_depth: int = 12, timeout_ms: int = 10000):
        self.repo = repo
        self.T = theory(mode)
        self.mode = self.T.name
        self.contracts = contracts or {}
        self.inline_depth = inline_depth
        self.timeout_ms = timeout_ms
        self.side_obligations: List[Obligation] = []
        self.n_solver = 0
        self.t_solver = 0.0
        self._feas_cache = {}
        self._exact = False
        self._fresh = itertools.count()
        self._strtab = {}
        self.no_contract_for = set()      # quals whose body is executed even if a contract exists
        self.spec_mode = 0                # >0 while evaluating specification expressions
        self.spec_env = {}                # names available to specifications (spec functions)
        self.loop_specs = {}              # (qual, 'while#k' | 'for#k') -> loop spec
        self.default_spec_module = None
        self.cur_qual: List[str] = []
        self.opaque_handlers = {}         # typ -> handler(engine, st, recv, name, args, kwargs)
        self.external_handlers = {}       # dotted external name -> handler(engine, st, args, kwargs)
        self.const_overrides = {}         # (module, name) -> value replacing a module-level constant
        self.external_values = {}         # dotted external name -> value (e.g. math.pi)
        self.opaque_spec = set()          # spec functions treated as uninterpreted in codec mode
        self.spec_module_names = set()
        self.opaque_always = set()
        self.real_spec = set()         # opaque spec functions returning a real
        self.axioms = []                  # facts about global constants, assumed at the start of every run
        self.late_axioms = []             # facts that DEFINE fresh symbols introduced by models mid-run (globally true)
        self.uf = {}
        self.cur_obl_prefix = ""
        self.used_assumptions = set()
        self.deadline_paths = 20000
        self.npaths = 0

    # ------------------------------------------------------------------ solver helpers
    def fresh(self, base: str) -> str:
        return f"{base}!{next(self._fresh)}"

    def _solver(self):
        s = z3.Solver()
        s.set("timeout", self.timeout_ms if self._exact else min(self.timeout_ms, 4000))
        return s

    def feasible(self, pc, extra=None) -> bool:
        if extra is not None:
            e = _fold(extra)
            if z3.is_true(e):
                if self.spec_mode and not self._exact:
                    return True
                return True if not pc else self.feasible(pc)
            if z3.is_false(e):
                return False
            if self.spec_mode and not self._exact:
                # inside specifications branches are not pruned by the solver (both sides are merged under their
                # guards anyway); only constant folding above decides
                return True
            from .slicing import relevant
            cs = relevant(list(pc) + self.late_axioms, [extra]) + [extra]
        else:
            cs = list(pc) + self.late_axioms
        key = tuple(c.get_id() for c in cs)
        if key in self._feas_cache:
            return self._feas_cache[key][0]
        import time
        t = time.time()
        s = self._solver()
        s.add(*cs)
        r = s.check()
        self.n_solver += 1
        self.t_solver += time.time() - t
        res = r != z3.unsat          # unknown counts as feasible (sound: explores more)
        self._feas_cache[key] = (res, cs)      # keep the terms alive: z3 ast ids are reused after collection
        return res

    def valid(self, pc, goal) -> bool:
        g = _fold(goal)
        if z3.is_true(g):
            return True
        saved = self._exact
        self._exact = True
        try:
            return not self.feasible(pc, z3.Not(goal))
        finally:
            self._exact = saved

    def add_obligation(self, st: State, label: str, goal, kind="side"):
        if self.spec_mode and getattr(self, "spec_polarity", "prove") == "assume":
            # an assumed formula is the same bit-vector formula its prover discharged: no new side condition
            return
        g = _fold(goal)
        if z3.is_true(g):
            return
        self.side_obligations.append(Obligation(f"{self.cur_obl_prefix}{label}#{len(self.side_obligations)}",
                                                st.pc, goal, kind))

    def obl_fn(self, st: State):
        return lambda label, goal: self.add_obligation(st, label, goal)

    # ------------------------------------------------------------------ scalars
    def intval(self, n: int):
        return self.T.val(n)

    def is_int(self, v) -> bool:
        return is_term(v) and self.T.is_int(v)

    def is_num(self, v) -> bool:
        return is_term(v) and (self.T.is_int(v) or is_real(v) or is_bool(v))

    def to_int(self, v):
        """bool -> 0/1, int -> itself"""
        if is_bool(v):
            return z3.If(v, self.intval(1), self.intval(0))
        if self.is_int(v):
            return v
        raise Unsupported(f"expected int, got {v!r}")

    def to_real(self, v):
        if is_real(v):
            return v
        if is_bool(v):
            return z3.If(v, z3.RealVal(1), z3.RealVal(0))
        if self.is_int(v):
            c = self.T.as_const(v)
            if c is not None:
                return z3.RealVal(c)
            return self.T.to_real(v)
        raise Unsupported(f"expected number, got {v!r}")

    def pyconst(self, v):
        """python constant of a value if it is one, else None"""
        if isinstance(v, StrV):
            return v.s
        if isinstance(v, NoneV):
            return None
        if is_bool(v):
            s = _fold(v)
            if z3.is_true(s):
                return True
            if z3.is_false(s):
                return False
            return None
        if self.is_int(v):
            return self.T.as_const(v)
        if is_real(v):
            if getattr(self, "float_inf", None) is not None and v.eq(self.float_inf):
                return float("inf")
            s = _fold(v)
            if z3.is_rational_value(s):
                return s.numerator_as_long() / s.denominator_as_long()
        return None

    def lift(self, x):
        """python constant -> value"""
        if isinstance(x, V) or is_term(x):
            return x
        if x is None:
            return NONE
        if isinstance(x, bool):
            return z3.BoolVal(x)
        if isinstance(x, int):
            return self.intval(x)
        if isinstance(x, float):
            return z3.RealVal(repr(x)) if x == x and abs(x) != float("inf") else self._nonfinite(x)
        if isinstance(x, str):
            return StrV(x)
        if isinstance(x, bytes):
            return BytesV([("int", z3.BitVecVal(int.from_bytes(x, "big"), 8 * len(x)), len(x))] if x else [])
        if isinstance(x, tuple):
            return TupleV([self.lift(i) for i in x])
        raise Unsupported(f"cannot lift constant {x!r}")

    def _nonfinite(self, x):
        if x == float("inf") and getattr(self, "float_inf", None) is not None:
            self.used_assumptions.add("float('inf') is a real constant larger than 10^30")
            return self.float_inf
        if x == float("-inf") and getattr(self, "float_inf", None) is not None:
            return -self.float_inf
        raise Unsupported("non-finite float constant")

    def str_id(self, s: str):
        if s not in self._strtab:
            self._strtab[s] = len(self._strtab) + 1
        return z3.IntVal(self._strtab[s])

    # ------------------------------------------------------------------ truthiness / equality
    def truth(self, st: State, v):
        if is_bool(v):
            return v
        if self.is_int(v):
            return v != self.intval(0)
        if is_real(v):
            return v != 0
        if isinstance(v, NoneV):
            return z3.BoolVal(False)
        if isinstance(v, Opt):
            return z3.And(z3.Not(v.isnone), self.truth(st, v.val))
        if isinstance(v, StrV):
            return z3.BoolVal(bool(v.s))
        if isinstance(v, BytesV):
            return self.bytes_len(v) != self.intval(0)
        if isinstance(v, TupleV):
            return z3.BoolVal(bool(v.items))
        if isinstance(v, Ref):
            o = st.obj(v)
            if o.kind in ("list", "set", "deque"):
                if o.extra and o.extra.get("symlen") is not None:
                    return o.extra["symlen"] != self.intval(0)
                return z3.BoolVal(bool(o.items))
            if o.kind == "dict":
                ps = [e[1] for e in o.items]
                return z3.Or(*ps) if ps else z3.BoolVal(False)
            return z3.BoolVal(True)
        if isinstance(v, EnumV) and any(b.split(".")[-1] in ("IntEnum", "IntFlag") for b in getattr(v.cls, "bases", [])):
            # members of an IntEnum are ints: the member with value 0 is falsy
            if self.enum_by_index(v.cls):
                raise Unsupported("truth value of an IntEnum with non-integer members")
            val = v.val if is_term(v.val) else self.intval(v.val)
            return val != self.intval(0)
        if isinstance(v, (Rec, EnumV, ClassV, FuncV, BoundV, BuiltinV, Opaque, ExcV)):
            if isinstance(v, Rec) and self.repo.find_method(v.cls, "__bool__"):
                raise Unsupported("__bool__")
            return z3.BoolVal(True)
        raise Unsupported(f"truth of {v!r}")

    def num_pair(self, a, b):
        """coerce two numeric terms to a common sort (int,int) or (real,real)"""
        if is_bool(a):
            a = self.to_int(a)
        if is_bool(b):
            b = self.to_int(b)
        if is_real(a) or is_real(b):
            return self.to_real(a), self.to_real(b), "real"
        return a, b, "int"

    def eq(self, st: State, a, b):
        """Python ``a == b`` for values without user-defined __eq__ dispatch (see eq_dispatch)."""
        if isinstance(a, Opt):
            if isinstance(b, NoneV):
                return a.isnone
            if isinstance(b, Opt):
                return z3.Or(z3.And(a.isnone, b.isnone),
                             z3.And(z3.Not(a.isnone), z3.Not(b.isnone), self.eq(st, a.val, b.val)))
            return z3.And(z3.Not(a.isnone), self.eq(st, a.val, b))
        if isinstance(b, Opt):
            return self.eq(st, b, a)
        if isinstance(a, NoneV) or isinstance(b, NoneV):
            return z3.BoolVal(isinstance(a, NoneV) and isinstance(b, NoneV))
        if is_term(a) and is_term(b):
            if is_bool(a) and is_bool(b):
                return a == b
            x, y, _ = self.num_pair(a, b)
            return x == y
        if isinstance(a, StrV) and isinstance(b, StrV):
            return z3.BoolVal(a.s == b.s)
        if isinstance(a, (StrV, SymStr)) and isinstance(b, (StrV, SymStr)):
            ta = self.str_id(a.s) if isinstance(a, StrV) else a.term
            tb = self.str_id(b.s) if isinstance(b, StrV) else b.term
            return ta == tb
        if isinstance(a, EnumV) and isinstance(b, EnumV):
            if a.cls.qual != b.cls.qual:
                return z3.BoolVal(False)
            if is_term(a.val) or is_term(b.val):
                return self.lift(a.val) == self.lift(b.val)
            return z3.BoolVal(a.val == b.val)
        if isinstance(a, EnumV) or isinstance(b, EnumV):
            return z3.BoolVal(False)      # plain Enum never equals a non-member
        if isinstance(a, BytesV) and isinstance(b, BytesV):
            return self.bytes_eq(st, a, b)
        if isinstance(a, TupleV) and isinstance(b, TupleV):
            if len(a.items) != len(b.items):
                return z3.BoolVal(False)
            return z3.And(*[self.eq(st, x, y) for x, y in zip(a.items, b.items)]) if a.items else z3.BoolVal(True)
        if isinstance(a, Rec) and isinstance(b, Rec):
            if a.cls.qual != b.cls.qual:
                return z3.BoolVal(False)
            ks = list(a.f)
            return z3.And(*[self.eq(st, a.f[k], b.f[k]) for k in ks]) if ks else z3.BoolVal(True)
        if isinstance(a, Ref) and isinstance(b, Ref):
            oa, ob = st.obj(a), st.obj(b)
            if a.addr == b.addr:
                return z3.BoolVal(True)
            if oa.kind == "list" and ob.kind == "list" and not (oa.extra or ob.extra):
                if len(oa.items) != len(ob.items):
                    return z3.BoolVal(False)
                return z3.And(*[self.eq(st, x, y) for x, y in zip(oa.items, ob.items)]) if oa.items \
                    else z3.BoolVal(True)
            if oa.kind == "obj" and ob.kind == "obj" and oa.cls is not None and ob.cls is not None:
                if oa.cls.is_dataclass and oa.cls.qual == ob.cls.qual:
                    ks = [f.name for f in self.repo.all_fields(oa.cls)]
                    return z3.And(*[self.eq(st, oa.f[k], ob.f[k]) for k in ks]) if ks else z3.BoolVal(True)
                return z3.BoolVal(False)
            if oa.kind == "dict" and ob.kind == "dict":
                return self.dict_eq(st, oa, ob)
            raise Unsupported("== on heap objects")
        if isinstance(a, Opaque) and isinstance(b, Opaque):
            if a.ident is not None and b.ident is not None and a.ident.sort() == b.ident.sort():
                return a.ident == b.ident
            raise Unsupported("== on opaque values")
        if isinstance(a, ClassV) and isinstance(b, ClassV):
            return z3.BoolVal(a.cls.qual == b.cls.qual)
        kinds = (type(a).__name__, type(b).__name__)
        if isinstance(a, (Opaque,)) or isinstance(b, (Opaque,)):
            raise Unsupported(f"== on {kinds}")
        # values of different kinds are never equal in the subset handled (no cross-type __eq__)
        return z3.BoolVal(False)

    def dict_eq(self, st, oa, ob):
        ka = {self.key_const(e[0]): e for e in oa.items}
        kb = {self.key_const(e[0]): e for e in ob.items}
        cs = []
        for k in set(ka) | set(kb):
            ea, eb = ka.get(k), kb.get(k)
            pa = ea[1] if ea else z3.BoolVal(False)
            pb = eb[1] if eb else z3.BoolVal(False)
            if ea and eb:
                cs.append(z3.And(pa == pb, z3.Implies(pa, self.eq(st, ea[2], eb[2]))))
            else:
                cs.append(pa == pb)
        return z3.And(*cs) if cs else z3.BoolVal(True)

    def key_const(self, k):
        """hashable python key of a dict key value (must be constant)"""
        if isinstance(k, StrV):
            return ("s", k.s)
        if isinstance(k, EnumV):
            c = k.val if not is_term(k.val) else self.pyconst(k.val)
            if c is None:
                raise Unsupported("symbolic enum as dict key")
            return ("e", k.cls.qual, c)
        if isinstance(k, TupleV):
            return ("t",) + tuple(self.key_const(i) for i in k.items)
        c = self.pyconst(k)
        if c is None and not isinstance(k, NoneV):
            raise Unsupported(f"symbolic dict key {k!r}")
        return ("c", c)

    # ------------------------------------------------------------------ merging
    def merge(self, st, c, a, b):
        """value of If(c, a, b); raises Unsupported if the kinds cannot be joined"""
        if a is b:
            return a
        if is_term(a) and is_term(b):
            if a.sort() == b.sort():
                if a.eq(b):
                    return a
                return z3.If(c, a, b)
            if is_bool(a) != is_bool(b):
                raise Unsupported("merge bool with number")
            x, y, _ = self.num_pair(a, b)
            return z3.If(c, x, y)
        if isinstance(a, NoneV) and isinstance(b, NoneV):
            return NONE
        if isinstance(a, NoneV):
            if isinstance(b, Opt):
                return Opt(z3.Or(c, b.isnone), b.val)
            return Opt(c, b)
        if isinstance(b, NoneV):
            if isinstance(a, Opt):
                return Opt(z3.Or(z3.Not(c), a.isnone), a.val)
            return Opt(z3.Not(c), a)
        if isinstance(a, Opt) or isinstance(b, Opt):
            ia = a.isnone if isinstance(a, Opt) else z3.BoolVal(False)
            ib = b.isnone if isinstance(b, Opt) else z3.BoolVal(False)
            va = a.val if isinstance(a, Opt) else a
            vb = b.val if isinstance(b, Opt) else b
            return Opt(z3.If(c, ia, ib), self.merge(st, c, va, vb))
        if isinstance(a, StrV) and isinstance(b, StrV):
            if a.s == b.s:
                return a
            return SymStr(z3.If(c, self.str_id(a.s), self.str_id(b.s)))
        if isinstance(a, (StrV, SymStr)) and isinstance(b, (StrV, SymStr)):
            ta = self.str_id(a.s) if isinstance(a, StrV) else a.term
            tb = self.str_id(b.s) if isinstance(b, StrV) else b.term
            return SymStr(z3.If(c, ta, tb))
        if isinstance(a, EnumV) and isinstance(b, EnumV) and a.cls.qual == b.cls.qual:
            return EnumV(a.cls, self.merge(st, c, self.lift(a.val), self.lift(b.val)))
        if isinstance(a, Rec) and isinstance(b, Rec) and a.cls.qual == b.cls.qual and set(a.f) == set(b.f):
            return Rec(a.cls, {k: self.merge(st, c, a.f[k], b.f[k]) for k in a.f})
        if isinstance(a, TupleV) and isinstance(b, TupleV) and len(a.items) == len(b.items):
            return TupleV([self.merge(st, c, x, y) for x, y in zip(a.items, b.items)])
        if isinstance(a, Ref) and isinstance(b, Ref) and a.addr == b.addr:
            return a
        if isinstance(a, BytesV) and isinstance(b, BytesV):
            la, lb = self.bytes_const_len(a), self.bytes_const_len(b)
            if la is not None and la == lb:
                if la == 0:
                    return a
                return BytesV([("int", z3.If(c, self.bytes_as_bv(a), self.bytes_as_bv(b)), la)])
        if isinstance(a, ClassV) and isinstance(b, ClassV) and a.cls.qual == b.cls.qual:
            return a
        if isinstance(a, ExcV) and isinstance(b, ExcV) and a.name == b.name:
            return a
        if isinstance(a, Opaque) and isinstance(b, Opaque) and a.typ == b.typ:
            if a.ident is not None and b.ident is not None:
                return Opaque(a.typ, z3.If(c, a.ident, b.ident), a.data)
            if a.ident is None and b.ident is None:
                return a
        raise Unsupported(f"cannot merge {type(a).__name__} with {type(b).__name__}")

    def merge_states(self, base: State, c, s1: State, s2: State) -> Optional[State]:
        """join two fall-through states that forked from ``base`` on condition c / not c; None if impossible"""
        try:
            loc = {}
            for k in set(s1.loc) | set(s2.loc):
                if k in s1.loc and k in s2.loc:
                    loc[k] = self.merge(base, c, s1.loc[k], s2.loc[k])
                # a variable bound in one branch only stays unbound (reading it later is a NameError -> Unsupported)
            if s1.nalloc != s2.nalloc and (s1.nalloc != base.nalloc or s2.nalloc != base.nalloc):
                # allocations in the branches: keep both sets (addresses are disjoint only if we renumber) -> give up
                return None
            heap = {}
            for addr in set(s1.heap) | set(s2.heap):
                o1, o2 = s1.heap.get(addr), s2.heap.get(addr)
                if o1 is o2:
                    heap[addr] = o1
                    continue
                if o1 is None or o2 is None:
                    return None
                m = self.merge_obj(base, c, o1, o2)
                if m is None:
                    return None
                heap[addr] = m
            if s1.ghost != s2.ghost:
                if set(s1.ghost) != set(s2.ghost):
                    return None
                for k in s1.ghost:
                    if len(s1.ghost[k]) != len(s2.ghost[k]) or any(x is not y for x, y in zip(s1.ghost[k], s2.ghost[k])):
                        return None
            if s1.held != s2.held:
                return None
            n = len(base.pc)
            d1 = list(s1.pc[n + 1:])
            d2 = list(s2.pc[n + 1:])
            pc = list(base.pc)
            # extra facts learnt inside a branch are kept guarded by the branch condition
            if d1:
                pc.append(z3.Implies(c, z3.And(*d1)))
            if d2:
                pc.append(z3.Implies(z3.Not(c), z3.And(*d2)))
            return State(pc, loc, heap, s1.ghost, s1.held, max(s1.nalloc, s2.nalloc), base.trace)
        except Unsupported:
            return None

    def merge_obj(self, st, c, o1: Obj, o2: Obj) -> Optional[Obj]:
        if o1.kind != o2.kind or (o1.cls and o2.cls and o1.cls.qual != o2.cls.qual):
            return None
        if o1.kind == "obj":
            if set(o1.f) != set(o2.f):
                return None
            return Obj(o1.cls, "obj", {k: self.merge(st, c, o1.f[k], o2.f[k]) for k in o1.f}, None, o1.extra)
        if o1.kind == "dict":
            k1 = {self.key_const(e[0]): e for e in o1.items}
            k2 = {self.key_const(e[0]): e for e in o2.items}
            items = []
            order = [self.key_const(e[0]) for e in o1.items] + [k for k in (self.key_const(e[0]) for e in o2.items)
                                                                  if k not in k1]
            for k in order:
                e1, e2 = k1.get(k), k2.get(k)
                if e1 and e2:
                    items.append([e1[0], z3.If(c, e1[1], e2[1]) if not e1[1].eq(e2[1]) else e1[1],
                                  self.merge(st, c, e1[2], e2[2])])
                elif e1:
                    items.append([e1[0], z3.And(c, e1[1]), e1[2]])
                else:
                    items.append([e2[0], z3.And(z3.Not(c), e2[1]), e2[2]])
            return Obj(o1.cls, "dict", None, items, o1.extra)
        if o1.kind in ("list", "deque", "set"):
            if o1.extra != o2.extra or len(o1.items) != len(o2.items):
                return None
            return Obj(o1.cls, o1.kind, None, [self.merge(st, c, x, y) for x, y in zip(o1.items, o2.items)], o1.extra)
        return None
