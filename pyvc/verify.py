"""Verify one function against its contract: generate obligations from the real source, discharge them."""
from __future__ import annotations

import ast
import os
import subprocess
import tempfile
import time
import traceback

import z3

from .contracts import Contract, Lemma
from .executor import Engine
from .shapes import Maker, Shape, T, expand_oneof
from .source import Repo, strip_docstring, is_static, is_classmethod
from .specs import SpecError
from .state import State
from .values import (NONE, NoneV, Opt, Rec, Ref, TupleV, ClassV, FuncV, ExcV, Opaque, RaiseV, Obj, Unsupported,
                     is_term)

CVC5 = "/usr/bin/cvc5"


class Result:
    def __init__(self, name, kind):
        self.name = name
        self.kind = kind
        self.status = "unknown"     # proved | refuted | unknown
        self.backend = None
        self.time = 0.0
        self.model = None           # concretised inputs when refuted
        self.detail = ""
        self.path = None

    def to_json(self):
        return {k: v for k, v in self.__dict__.items() if v is not None and v != ""}


def discharge(pc, goal, timeout_ms=10000, use_cvc5=True, want_model=True):
    """returns (status, backend, seconds, model|None, smt2|None)"""
    t0 = time.time()
    s = z3.Solver()
    s.set("timeout", timeout_ms)
    from .slicing import relevant
    rel = relevant(pc, [goal])
    if any(_has_quant(x) for x in rel + [goal]):
        # universally quantified hypotheses (ring invariants).  Quantifier instantiation is sensitive to term
        # numbering, so a small portfolio (pure E-matching / default, several seeds, short budgets) is tried
        # before the single long attempt below; any `unsat` discharges, a `sat` is left to the final attempt.
        for k, (ematch, seed, budget) in enumerate([(True, 0, 4000), (False, 0, 4000), (True, 1, 4000),
                                                    (False, 1, 6000), (True, 2, 8000), (True, 3, 8000)]):
            s2 = z3.Solver()
            s2.set("timeout", min(timeout_ms, budget))
            s2.set("random_seed", seed)
            if ematch:
                s2.set("auto_config", False)
                s2.set("smt.mbqi", False)
            s2.add(*rel)
            s2.add(z3.Not(goal))
            r2 = s2.check()
            if r2 == z3.unsat:
                return "proved", "z3-ematching" if ematch else "z3", time.time() - t0, None, None
            if r2 == z3.sat and not ematch and len(rel) == len(pc):
                return "refuted", "z3", time.time() - t0, s2.model(), None
    s.add(*rel)
    s.add(z3.Not(goal))
    r = s.check()
    dt = time.time() - t0
    if r == z3.unsat:
        return "proved", "z3", dt, None, None
    if r == z3.sat:
        if len(rel) < len(pc):
            # the cone-of-influence slice is only an optimisation for PROVING: a counter-model of the slice is a
            # counter-example only if the rest of the path condition is satisfiable together with it (a path kept
            # because its feasibility query timed out may be infeasible).  Re-check against the whole path condition.
            sf = z3.Solver()
            sf.set("timeout", timeout_ms)
            sf.add(*pc)
            sf.add(z3.Not(goal))
            rf = sf.check()
            dt = time.time() - t0
            if rf == z3.unsat:
                return "proved", "z3", dt, None, None
            if rf == z3.sat:
                return "refuted", "z3", dt, sf.model(), None
            return "unknown", "z3", dt, None, None
        return "refuted", "z3", dt, s.model(), None
    smt2 = s.to_smt2()
    if use_cvc5 and os.path.exists(CVC5):
        st2, dt2 = run_cvc5(smt2, timeout_ms)
        if st2 == "unsat":
            return "proved", "cvc5", dt + dt2, None, smt2
        if st2 == "sat" and len(rel) == len(pc):
            return "refuted", "cvc5", dt + dt2, None, smt2
        dt += dt2
    # last resort for formulas mixing non-linear arithmetic with uninterpreted functions (trigonometry): replace every
    # application of an uninterpreted function by a fresh constant (same constant for syntactically equal applications).
    # The abstraction admits more models, so `unsat` still proves the goal; a `sat` model is accepted only if it is
    # congruent (no two applications with equal argument values got different results) - then it extends to a model
    # of the original formula.
    try:
        st3, m3, dt3 = _solve_abstracting_ufs(rel + [z3.Not(goal)], timeout_ms)
    except Exception:
        st3, m3, dt3 = "unknown", None, 0.0
    dt += dt3
    if st3 == "unsat":
        return "proved", "z3-uf-abstraction", dt, None, smt2
    if st3 == "sat" and len(rel) == len(pc):
        return "refuted", "z3-uf-abstraction", dt, m3, smt2
    return "unknown", "z3+cvc5", dt, None, smt2


def _solve_abstracting_ufs(formulas, timeout_ms):
    t0 = time.time()
    apps = {}          # ast id -> (application term, fresh constant)
    keep = []

    def collect(t, seen):
        if t.get_id() in seen:
            return
        seen.add(t.get_id())
        for c in t.children():
            collect(c, seen)
        if z3.is_app(t) and t.num_args() > 0 and t.decl().kind() == z3.Z3_OP_UNINTERPRETED and t.get_id() not in apps:
            apps[t.get_id()] = (t, z3.FreshConst(t.sort(), "ufapp"))
            keep.append(t)
    seen = set()
    for f in formulas:
        if _has_quant(f):
            return "unknown", None, 0.0
        collect(f, seen)
    if not apps:
        return "unknown", None, 0.0
    # innermost applications first (an application may occur inside the argument of another one)
    order = sorted(apps.values(), key=lambda p: len(p[0].sexpr()))
    subst = []
    abstract_of = {}
    for t, c in order:
        t_abs = z3.substitute(t, *subst) if subst else t
        abstract_of[c.get_id()] = (t_abs, c, t.decl())
        subst.append((t, c))
    subst_rev = list(reversed(subst))          # outer applications first so that they are replaced as a whole
    abstracted = [z3.substitute(f, *subst_rev) for f in formulas]
    s = z3.Solver()
    s.set("timeout", timeout_ms)
    s.add(*abstracted)
    r = s.check()
    if r == z3.unsat:
        return "unsat", None, time.time() - t0
    if r != z3.sat:
        return "unknown", None, time.time() - t0
    m = s.model()
    # congruence check
    rows = {}
    for t_abs, c, decl in abstract_of.values():
        args = tuple(str(m.eval(a, model_completion=True)) for a in t_abs.children())
        val = str(m.eval(c, model_completion=True))
        k = (decl.name(), args)
        if k in rows and rows[k] != val:
            return "unknown", None, time.time() - t0
        rows[k] = val
    return "sat", m, time.time() - t0


def _has_quant(t):
    stack, seen = [t], set()
    while stack:
        x = stack.pop()
        if x.get_id() in seen:
            continue
        seen.add(x.get_id())
        if z3.is_quantifier(x):
            return True
        stack.extend(x.children())
    return False


def run_cvc5(smt2: str, timeout_ms: int):
    t0 = time.time()
    with tempfile.NamedTemporaryFile("w", suffix=".smt2", delete=False) as f:
        f.write("(set-logic ALL)\n" + smt2)
        path = f.name
    try:
        p = subprocess.run([CVC5, f"--tlimit={timeout_ms}", "--strings-exp", path], capture_output=True, text=True,
                           timeout=timeout_ms / 1000 + 5)
        out = p.stdout.strip().splitlines()
        res = out[0] if out else "unknown"
    except Exception:
        res = "unknown"
    finally:
        os.unlink(path)
    return res, time.time() - t0


class FunctionVerifier:
    def __init__(self, repo: Repo, c: Contract, registry, timeout_ms=10000, spec_modules=(), findings=None,
                 setup=None):
        self.repo = repo
        self.c = c
        self.registry = registry
        self.timeout_ms = timeout_ms
        self.spec_modules = list(spec_modules)
        self.results = []
        self.paths = 0
        self.info = {}
        self.defer = True
        self.deferred = []
        self.findings = [f for f in (findings or []) if f.get("obligation", "").startswith(c.qual + "/")]
        self.all_findings = findings or []
        self.setup = setup

    def build_engine(self):
        c = self.c
        usable = {q: k for q, k in self.registry.items()
                  if q != c.qual and q not in c.inline and (c.uses is None or q in c.uses)}
        eng = Engine(self.repo, c.mode, usable, timeout_ms=min(self.timeout_ms, 5000))
        eng.no_contract_for = set(c.inline) | {c.qual}
        eng.findings = self.all_findings
        eng.opaque_always = set(c.opaque)
        for key, spec in (c.loops or {}).items():
            eng.loop_specs[(c.qual, key) if isinstance(key, str) else key] = spec
        eng.default_spec_module = c.spec_module
        from .models import install_default_models
        install_default_models(eng)
        load_spec_env(eng, self.repo, self.spec_modules + ([c.spec_module] if c.spec_module else []))
        if self.setup:
            self.setup(eng)
        eng.cur_obl_prefix = ""
        return eng

    def count_cases(self):
        mi, ci, fn = self.repo.function(self.c.qual)
        eng0 = self.build_engine()
        shapes = self.param_shapes(eng0, mi, ci, fn)
        n = 1
        for p, s in shapes.items():
            n *= len(expand_oneof(Maker(eng0).resolve(s) if s.kind != 'class' else s))
        return n

    def run(self, only_case=None):
        c = self.c
        t0 = time.time()
        mi, ci, fn = self.repo.function(c.qual)
        self.info["source_hash"] = self.repo.segment_hash(mi, fn)
        self.info["lines"] = (fn.lineno, fn.end_lineno)
        eng0 = self.build_engine()
        shapes = self.param_shapes(eng0, mi, ci, fn)
        combos = [{}]
        for p, s in shapes.items():
            combos = [dict(cb, **{p: x}) for cb in combos for x in expand_oneof(Maker(eng0).resolve(s) if s.kind != 'class' else s)]
        self.info["input_cases"] = len(combos)
        for k, combo in enumerate(combos):
            if only_case is not None and k != only_case:
                continue
            eng = self.build_engine() if k else eng0
            self.run_case(eng, mi, ci, fn, combo, f"case{k}" if len(combos) > 1 else "")
        self.info["wall_s"] = round(time.time() - t0, 3)
        return self.results

    def param_shapes(self, eng, mi, ci, fn):
        c = self.c
        mk = Maker(eng)
        shapes = {}
        a = fn.args
        params = a.posonlyargs + a.args + a.kwonlyargs
        for i, p in enumerate(params):
            if p.arg in c.shapes:
                shapes[p.arg] = c.shapes[p.arg]
            elif i == 0 and ci is not None and not is_static(fn):
                if is_classmethod(fn):
                    shapes[p.arg] = Shape("class", qual=ci.qual)
                else:
                    shapes[p.arg] = mk.class_shape(ci)
            else:
                shapes[p.arg] = mk.from_annotation(mi.name, p.annotation)
        for extra, s in c.shapes.items():
            if extra not in shapes and extra.startswith("$"):
                shapes[extra] = s
        return shapes

    def run_case(self, eng, mi, ci, fn, shapes, case):
        c = self.c
        mk = Maker(eng)
        st = State()
        env = {}
        for p, s in shapes.items():
            if s.kind == "class":
                env[p] = ClassV(self.repo.class_by_qual(s.qual))
            else:
                st, env[p] = mk.make(st, s, p)
        base_env = {"$module": mi.name, "$qual": c.qual, "$depth": 0}
        if ci is not None:
            base_env["$class"] = ci
        spec_env = dict(env)
        spec_env["$module"] = c.spec_module
        spec_env.update(c.env)
        # requires
        pre = st
        for ax in eng.axioms:
            pre = pre.assume(ax)
        for req in c.requires:
            pre = pre.assume(eng.spec_bool(pre, req, spec_env, "assume", c.spec_module))
        r = Result(f"{c.qual}/vacuity:requires{('@' + case) if case else ''}", "vacuity")
        if eng.feasible(pre.pc):
            r.status, r.backend = "proved", "z3"
        else:
            r.status, r.detail = "refuted", "precondition unsatisfiable"
        self.results.append(r)
        if r.status != "proved":
            return
        old = pre
        body = strip_docstring(fn.body)
        loc = dict(env)
        loc.update(base_env)
        eng.entry_state = pre.with_loc(loc)
        outs = list(eng.ex(body, pre.with_loc(loc)))
        self.paths += len(outs)
        covered = set()
        canary_refuted = {k: False for k in c.canary}
        for pi, (s1, o) in enumerate(outs):
            tag = f"path{pi}" + (f"@{case}" if case else "")
            if o[0] in ("ret", "fall"):
                result = o[1] if o[0] == "ret" else NONE
                env2 = dict(spec_env)
                env2.update({"result": result, "$old": old, "$oldenv": dict(spec_env)})
                for exc_name, cond in c.raises.items():
                    if isinstance(cond, str):
                        g = z3.Not(eng.spec_bool(old._clone(pc=s1.pc), cond, spec_env, "assume", c.spec_module))
                        self.obligation(eng, mk, shapes, f"{c.qual}/raises:{exc_name}:must-raise", tag, s1.pc, g,
                                        "raises")
                for label, text in c.ensures.items():
                    eng.witness_vars = []
                    g = eng.spec_bool(s1, text, env2, "prove", c.spec_module)
                    self.obligation(eng, mk, shapes, f"{c.qual}/ensures:{label}", tag, s1.pc, g, "ensures",
                                    witnesses=list(eng.witness_vars))
                for label, text in c.canary.items():
                    g = eng.spec_bool(s1, text, env2, "prove", c.spec_module)
                    if not canary_refuted[label]:
                        stt, _, _, _, _ = discharge(s1.pc, g, 3000, use_cvc5=False)
                        if stt != "proved":
                            # refuted, or not decided within the budget: either way the false clause was NOT proved
                            canary_refuted[label] = True
                for i, text in enumerate(c.cover):
                    if i not in covered and eng.feasible(s1.pc, eng.spec_bool(s1, text, env2, "assume",
                                                                              c.spec_module)):
                        covered.add(i)
                if c.frame_check:
                    self.frame(eng, mk, shapes, old, s1, env, tag)
            elif o[0] == "raise":
                exc = o[1]
                allowed = None
                for exc_name, cond in c.raises.items():
                    if self.exc_is(eng, exc, exc_name):
                        allowed = cond
                        break
                if allowed is None and any(self.exc_is(eng, exc, n) for n in c.may_raise):
                    if any(self.exc_is(eng, exc, n) for n in c.raises_unchanged):
                        self.frame(eng, mk, shapes, old, s1, env, tag, everything=True)
                    continue
                if allowed is None:
                    r_ = self.obligation(eng, mk, shapes, f"{c.qual}/raises:none:{exc.name}", tag, s1.pc,
                                         z3.BoolVal(False), "raises")
                    r_.detail = (r_.detail + " " if r_.detail else "") + "raised with: " + \
                        ", ".join(str(getattr(a, "s", a))[:80] for a in exc.args)
                else:
                    g = eng.spec_bool(old._clone(pc=s1.pc), allowed, spec_env, "prove", c.spec_module) \
                        if isinstance(allowed, str) else z3.BoolVal(True)
                    self.obligation(eng, mk, shapes, f"{c.qual}/raises:{exc.name}:only-if", tag, s1.pc, g, "raises")
                    if c.frame_check:
                        self.frame(eng, mk, shapes, old, s1, env, tag, everything=True)
            else:
                raise Unsupported("break/continue at function level")
        # side obligations (shift overflow, callee preconditions): batched per path condition, split on failure
        groups = {}
        for ob in eng.side_obligations:
            key = (ob.kind if ob.kind in ("precondition", "loop") else "side", tuple(x.get_id() for x in ob.pc))
            groups.setdefault(key, []).append(ob)
        grouped = []
        for gi, ((kind, _), obs) in enumerate(groups.items()):
            if kind in ("precondition", "loop") or len(obs) == 1:
                for ob in obs:
                    self.obligation(eng, mk, shapes, f"{c.qual}/{ob.kind}:{ob.name.split('#')[0]}",
                                    ob.name.split('#')[1] + (f"@{case}" if case else ""), ob.pc, ob.goal, ob.kind)
                continue
            conj = z3.And(*[ob.goal for ob in obs])
            labels = sorted({ob.name.split('#')[0] for ob in obs})
            r = self.obligation(eng, mk, shapes, f"{c.qual}/side:no-overflow[{'+'.join(labels)}]",
                                f"group{gi}" + (f"@{case}" if case else ""), obs[0].pc, conj, "side")
            grouped.append((r, obs))
        self.flush()
        for r, obs in grouped:
            r.detail = (r.detail + " " if r.detail else "") + f"conjunction of {len(obs)} side conditions"
            if r.status != "proved":
                self.results.remove(r)
                for ob in obs:
                    self.obligation(eng, mk, shapes, f"{c.qual}/{ob.kind}:{ob.name.split('#')[0]}",
                                    ob.name.split('#')[1] + (f"@{case}" if case else ""), ob.pc, ob.goal, ob.kind)
        self.flush()
        for label, ok in canary_refuted.items():
            r = Result(f"{c.qual}/canary:{label}{('@' + case) if case else ''}", "canary")
            r.status = "proved" if ok else "refuted"
            r.detail = "false clause refuted as required" if ok else "a deliberately false clause was PROVED"
            self.results.append(r)
        for i, text in enumerate(c.cover):
            r = Result(f"{c.qual}/cover:{i}{('@' + case) if case else ''}", "cover")
            r.status = "proved" if i in covered else "refuted"
            r.detail = text
            self.results.append(r)
        if eng.late_axioms:
            # facts by which models define their fresh symbols must not constrain anything else: together with the
            # precondition they have to be satisfiable, or every later verdict would be vacuous
            r = Result(f"{c.qual}/vacuity:model-facts{('@' + case) if case else ''}", "vacuity")
            if eng.feasible(pre.pc):
                r.status, r.backend = "proved", "z3"
            else:
                r.status, r.detail = "refuted", "facts asserted by the collaborator models are contradictory"
            self.results.append(r)
        self.info.setdefault("solver_calls", 0)
        self.info["solver_calls"] += eng.n_solver
        self.info.setdefault("assumptions", set()).update(eng.used_assumptions)

    def exc_is(self, eng, exc: ExcV, name: str) -> bool:
        from .values import BuiltinV
        if ":" in name:
            ci = self.repo.class_by_qual(name)
            return exc.cls is not None and self.repo.is_subclass(exc.cls, ci.name)
        return eng.exc_matches(None, exc, BuiltinV("exc:" + name))

    def frame(self, eng, mk, shapes, old: State, new: State, env, tag, everything=False):
        c = self.c
        allowed = set()
        if not everything:
            for path in c.modifies:
                parts = path.split(".")
                cur = env.get(parts[0])
                okp = True
                for p in parts[1:-1]:
                    if isinstance(cur, Ref) and p in old.obj(cur).f:
                        cur = old.obj(cur).f[p]
                    else:
                        okp = False
                        break
                if not okp or not isinstance(cur, Ref):
                    continue
                if parts[-1] == "*":
                    for fname in old.obj(cur).f:
                        allowed.add((cur.addr, fname))
                else:
                    allowed.add((cur.addr, parts[-1]))
                    v = old.obj(cur).f.get(parts[-1])
                    if isinstance(v, Ref) and old.obj(v).kind != "obj":
                        allowed.add((v.addr, None))
        for addr, o_old in old.heap.items():
            o_new = new.heap.get(addr)
            if o_new is o_old:
                continue
            if o_old.kind == "obj":
                for fname, v_old in o_old.f.items():
                    if (addr, fname) in allowed:
                        continue
                    v_new = o_new.f.get(fname)
                    if v_new is v_old:
                        continue
                    g = self.same(eng, new, v_old, v_new)
                    self.obligation(eng, mk, shapes, f"{c.qual}/frame:{self.addr_name(env, old, addr)}.{fname}", tag,
                                    new.pc, g, "frame")
            else:
                if (addr, None) in allowed:
                    continue
                g = self.same_container(eng, new, o_old, o_new)
                self.obligation(eng, mk, shapes, f"{c.qual}/frame:{self.addr_name(env, old, addr)}[]", tag, new.pc, g,
                                "frame")

    def addr_name(self, env, old, addr):
        for k, v in env.items():
            if isinstance(v, Ref) and v.addr == addr:
                return k
        for k, v in env.items():
            if isinstance(v, Ref) and old.obj(v).kind == "obj":
                for fn_, fv in old.obj(v).f.items():
                    if isinstance(fv, Ref) and fv.addr == addr:
                        return f"{k}.{fn_}"
        return f"@{addr}"

    def same(self, eng, st, a, b):
        if isinstance(a, Ref) and isinstance(b, Ref):
            return z3.BoolVal(a.addr == b.addr)
        if isinstance(a, Ref) != isinstance(b, Ref):
            return z3.BoolVal(False)
        try:
            return eng.eq(st, a, b)
        except Unsupported:
            return z3.BoolVal(False)

    def same_container(self, eng, st, a: Obj, b: Obj):
        if a.kind != b.kind:
            return z3.BoolVal(False)
        if a.kind == "dict":
            return eng.dict_eq(st, a, b)
        if len(a.items) != len(b.items):
            return z3.BoolVal(False)
        cs = [self.same(eng, st, x, y) for x, y in zip(a.items, b.items)]
        return z3.And(*cs) if cs else z3.BoolVal(True)

    def obligation(self, eng, mk, shapes, name, tag, pc, goal, kind, witnesses=()):
        r = Result(name, kind)
        r.path = tag
        if eng.late_axioms:
            pc = tuple(pc) + tuple(eng.late_axioms)
        if self.defer:
            self.results.append(r)
            self.deferred.append((r, eng, mk, shapes, name, pc, goal, witnesses))
            return r
        return self._discharge_into(r, eng, mk, shapes, name, pc, goal, witnesses)

    def flush(self, workers=8):
        """discharge the deferred obligations, fanned out over forked workers (terms are shared copy-on-write)"""
        todo, self.deferred = self.deferred, []
        if not todo:
            return
        saved = self.defer
        self.defer = False
        try:
            workers = min(workers, int(os.environ.get('PYVC_WORKERS', '4')))
            if len(todo) < 100 or workers <= 1:
                for (r, eng, mk, shapes, name, pc, goal, wit) in todo:
                    self.results.remove(r)
                    self._discharge_into(r, eng, mk, shapes, name, pc, goal, wit)
                return
            import json as _json
            kids = []
            for w in range(workers):
                rd, wr = os.pipe()
                pid = os.fork()
                if pid == 0:
                    os.close(rd)
                    out = {}
                    try:
                        for i in range(w, len(todo), workers):
                            (r, eng, mk, shapes, name, pc, goal, wit) = todo[i]
                            keep = list(self.results)
                            self._discharge_into(r, eng, mk, shapes, name, pc, goal, wit)
                            self.results = keep
                            out[i] = r.to_json()
                    except BaseException as ex:      # noqa
                        out["error"] = f"{type(ex).__name__}: {ex}"
                    with os.fdopen(wr, "w") as f:
                        f.write(_json.dumps(out))
                    os._exit(0)
                os.close(wr)
                kids.append((pid, rd))
            for pid, rd in kids:
                with os.fdopen(rd) as f:
                    data = f.read()
                os.waitpid(pid, 0)
                out = _json.loads(data) if data else {"error": "worker died"}
                if "error" in out:
                    raise Unsupported("obligation worker failed: " + out["error"])
                for i, rj in out.items():
                    r = todo[int(i)][0]
                    for k, v in rj.items():
                        setattr(r, k, v)
        finally:
            self.defer = saved

    def _discharge_into(self, r, eng, mk, shapes, name, pc, goal, witnesses=()):
        # known findings: prove the clause outside the listed regions
        regions = [f for f in self.findings if f.get("obligation") == name and "region" in f]
        g = goal
        if regions:
            env = {}
            # regions are predicates over the symbolic inputs: rebuild them by name
            for f in regions:
                reg = self.region_term(eng, mk, shapes, f["region"])
                g = z3.Or(g, reg)
        status, backend, dt, model, smt2 = discharge(pc, g, self.timeout_ms)
        r.status, r.backend, r.time = status, backend, round(dt, 4)
        if status == "refuted":
            if model is None:
                # cvc5 said sat without a model: ask z3 with a longer budget for the model only
                _, _, _, model, _ = discharge(pc, g, self.timeout_ms * 3, use_cvc5=False)
            if model is not None:
                try:
                    r.model = {p: mk.concretise(model, s, p) for p, s in shapes.items() if s.kind != "class"}
                    if witnesses:
                        r.model["$witnesses"] = {n: _model_val(eng, model, v) for n, v in witnesses}
                except Exception as ex:      # concretisation must never hide a refutation
                    r.detail = f"model not concretised: {ex}"
        if regions:
            r.detail = (r.detail + " " if r.detail else "") + "known-finding regions excluded: " + \
                ", ".join(f["id"] for f in regions)
            r.known = []
            for f in regions:
                reg = self.region_term(eng, mk, shapes, f["region"])
                st2, _, _, m2, _ = discharge(tuple(pc) + (reg,), goal, self.timeout_ms, use_cvc5=False)
                if st2 == "refuted":
                    r.known.append({"id": f["id"], "still_fails": True, "model":
                                    {p: mk.concretise(m2, s, p) for p, s in shapes.items() if s.kind != "class"}
                                    if m2 is not None else None})
        if r not in self.results:
            self.results.append(r)
        return r

    def region_term(self, eng, mk, shapes, text):
        st = State()
        env = {}
        for p, s in shapes.items():
            if s.kind == "class":
                continue
            st, env[p] = mk.make(st, s, p)
        env["$module"] = self.c.spec_module
        return eng.spec_bool(st, text, env, "assume", self.c.spec_module)


def _model_val(eng, model, v):
    x = model.eval(v, model_completion=True)
    if z3.is_int_value(x):
        return x.as_long()
    if z3.is_bv_value(x):
        return x.as_signed_long()
    if z3.is_rational_value(x):
        return {"$float": f"{x.numerator_as_long()}/{x.denominator_as_long()}"}
    if z3.is_true(x):
        return True
    if z3.is_false(x):
        return False
    return str(x)


def load_spec_env(eng, repo, modules):
    """make functions / constants of the spec modules visible to specification expressions"""
    for m in modules:
        if not m:
            continue
        mi = repo.module(m)
        eng.spec_module_names.add(m)
        if "OPAQUE_IN_CODEC" in mi.constants:
            eng.opaque_spec |= set(ast.literal_eval(mi.constants["OPAQUE_IN_CODEC"]))
        if "REAL_VALUED" in mi.constants:
            eng.real_spec |= set(ast.literal_eval(mi.constants["REAL_VALUED"]))
        for name, fn in mi.functions.items():
            eng.spec_env[name] = FuncV(m, fn, None, None, None)
        for name in mi.constants:
            try:
                eng.spec_env[name] = eng.module_const(m, name, mi.constants[name])
            except Unsupported:
                pass
        for name, ci in mi.classes.items():
            eng.spec_env[name] = ClassV(ci)
