"""Calls: source functions (inlined or by contract), constructors, builtins, builtin methods."""
from __future__ import annotations

import ast

import z3
from .slicing import fold as _fold

from .source import strip_docstring, is_static, is_classmethod
from .state import State
from .stmt import MetaIter, DictIter
from .values import (V, NONE, NoneV, Opt, StrV, SymStr, EnumV, Rec, Ref, TupleV, BytesV, ClassV, FuncV, BoundV,
                     BuiltinV, ModuleV, ExcV, Opaque, RaiseV, Obj, Unsupported, is_term, is_bool, is_real)


class CallMixin:
    # ------------------------------------------------------------------ entry
    def call_expr(self, e: ast.Call, st):
        if any(isinstance(a, ast.Starred) for a in e.args) or any(k.arg is None for k in e.keywords):
            yield from self.call_expr_star(e, st)
            return
        # logging / print: arguments evaluated, call dropped
        for s0, fn in self.ev(e.func, st):
            if isinstance(fn, RaiseV):
                yield s0, fn
                continue
            exprs = list(e.args) + [k.value for k in e.keywords]
            for s1, vs in self.ev_many(exprs, s0):
                if isinstance(vs, RaiseV):
                    yield s1, vs
                    continue
                args = vs[: len(e.args)]
                kwargs = {k.arg: v for k, v in zip(e.keywords, vs[len(e.args):])}
                yield from self.call_value(s1, fn, args, kwargs)

    def call_expr_star(self, e, st):
        for s0, fn in self.ev(e.func, st):
            if isinstance(fn, RaiseV):
                yield s0, fn
                continue
            exprs = [a.value if isinstance(a, ast.Starred) else a for a in e.args] + [k.value for k in e.keywords]
            for s1, vs in self.ev_many(exprs, s0):
                if isinstance(vs, RaiseV):
                    yield s1, vs
                    continue
                args = []
                for a, v in zip(e.args, vs):
                    if isinstance(a, ast.Starred):
                        items = self.iter_items(s1, v)
                        if items is None:
                            raise Unsupported("*args over non-meta iterable")
                        args.extend(items)
                    else:
                        args.append(v)
                kwargs = {}
                for k, v in zip(e.keywords, vs[len(e.args):]):
                    if k.arg is None:
                        if not (isinstance(v, Ref) and s1.obj(v).kind == "dict"):
                            raise Unsupported("**kwargs over non-dict")
                        for ent in s1.obj(v).items:
                            if not z3.is_true(_fold(ent[1])):
                                raise Unsupported("**kwargs with optional key")
                            kwargs[ent[0].s] = ent[2]
                    else:
                        kwargs[k.arg] = v
                yield from self.call_value(s1, fn, args, kwargs)

    def call_value(self, st, fn, args, kwargs):
        if isinstance(fn, FuncV):
            yield from self.call_function(st, fn, args, kwargs)
        elif isinstance(fn, BoundV):
            if fn.func is not None:
                yield from self.call_function(st, fn.func, [fn.recv] + list(args), kwargs)
            else:
                yield from self.call_builtin_method(st, fn.recv, fn.name, args, kwargs)
        elif isinstance(fn, ClassV):
            yield from self.construct(st, fn.cls, args, kwargs)
        elif isinstance(fn, BuiltinV):
            yield from self.call_builtin(st, fn.name, args, kwargs)
        elif isinstance(fn, Opaque):
            yield from self.opaque_call(st, fn, "__call__", args, kwargs)
        elif isinstance(fn, Opt):
            for s1, x in self.unwrap(st, fn, "call"):
                if isinstance(x, RaiseV):
                    yield s1, x
                else:
                    yield from self.call_value(s1, x, args, kwargs)
        elif isinstance(fn, NoneV):
            yield st, RaiseV(self.exc("TypeError", "None is not callable"))
        else:
            raise Unsupported(f"call of {fn!r}")

    def call_method(self, st, recv, name, args, kwargs):
        for s1, f in self.getattr(st, recv, name):
            if isinstance(f, RaiseV):
                yield s1, f
            else:
                yield from self.call_value(s1, f, args, kwargs)

    # ------------------------------------------------------------------ source functions
    def bind_params(self, st, fnode, args, kwargs, defaults_module, closure=None):
        """returns list of (state, loc dict) alternatives (defaults may need evaluation)"""
        a = fnode.args
        params = [p.arg for p in a.posonlyargs + a.args]
        loc = {}
        args = list(args)
        if len(args) > len(params):
            if a.vararg is None:
                raise Unsupported(f"too many positional arguments for {getattr(fnode, 'name', 'lambda')}")
            loc[a.vararg.arg] = TupleV(args[len(params):])
            args = args[: len(params)]
        elif a.vararg is not None:
            loc[a.vararg.arg] = TupleV([])
        for p, v in zip(params, args):
            loc[p] = v
        kwargs = dict(kwargs)
        for p in params[len(args):] + [k.arg for k in a.kwonlyargs]:
            if p in kwargs:
                loc[p] = kwargs.pop(p)
        if kwargs:
            if a.kwarg is None:
                raise Unsupported(f"unexpected keyword arguments {list(kwargs)}")
            raise Unsupported("**kwargs parameter")
        # defaults
        pos_defaults = dict(zip(params[len(params) - len(a.defaults):], a.defaults))
        kw_defaults = {k.arg: d for k, d in zip(a.kwonlyargs, a.kw_defaults) if d is not None}
        missing = [p for p in params + [k.arg for k in a.kwonlyargs] if p not in loc]
        alts = [(st, loc)]
        for p in missing:
            d = pos_defaults.get(p, kw_defaults.get(p))
            if d is None:
                raise Unsupported(f"missing argument {p} for {getattr(fnode, 'name', 'lambda')}")
            nxt = []
            for s0, l0 in alts:
                dloc = {"$module": defaults_module, "$qual": "<default>", "$depth": 0}
                if closure is not None:
                    # defaults of a nested function / lambda see the defining scope (evaluated here at call time:
                    # exact as long as the captured names were not rebound in between)
                    dloc["$closure"] = closure
                sd = s0.with_loc(dloc)
                for s1, v in self.ev(d, sd):
                    if isinstance(v, RaiseV):
                        raise Unsupported("default argument raises")
                    l1 = dict(l0)
                    l1[p] = v
                    nxt.append((s1.with_loc(s0.loc), l1))
            alts = nxt
        return alts

    def call_function(self, st, f: FuncV, args, kwargs):
        qual = f.qual
        node = f.node
        depth = st.loc.get("$depth", 0)
        if isinstance(node, ast.Lambda):
            for s1, loc in self.bind_params(st, node, args, kwargs, f.module, f.closure):
                loc.update({"$module": f.module, "$qual": st.loc.get("$qual"), "$depth": depth + 1,
                            "$closure": f.closure})
                caller = s1.loc
                for s2, v in self.ev(node.body, s1.with_loc(loc)):
                    yield s2.with_loc(caller), v
            return
        if qual is None and f.module in self.spec_module_names and \
                ((self.mode == "bv" and getattr(node, "name", None) in self.opaque_spec)
                 or getattr(node, "name", None) in self.opaque_always):
            yield st, self.opaque_spec_call(st, node.name, args)
            return
        if qual is not None and qual in self.contracts and qual not in self.no_contract_for and not self.spec_mode:
            yield from self.call_by_contract(st, f, qual, args, kwargs)
            return
        if qual is not None and qual in self.external_handlers:
            yield from self.external_handlers[qual](self, st, args, kwargs)
            return
        if depth >= self.inline_depth:
            raise Unsupported(f"inline depth exceeded at {qual}")
        for s1, loc in self.bind_params(st, node, args, kwargs, f.module, f.closure):
            loc.update({"$module": f.module, "$qual": qual or st.loc.get("$qual"), "$depth": depth + 1})
            if f.closure is not None:
                loc["$closure"] = f.closure
            if f.cls is not None:
                loc["$class"] = f.cls
            caller = s1.loc
            body = strip_docstring(node.body)
            outs = []
            for s2, o in self.ex(body, s1.with_loc(loc)):
                s3 = s2.with_loc(caller)
                if o[0] == "ret":
                    outs.append((s3, o[1]))
                elif o[0] == "fall":
                    outs.append((s3, NONE))
                elif o[0] == "raise":
                    outs.append((s3, RaiseV(o[1])))
                else:
                    raise Unsupported("break/continue escaping a function")
            yield from self.merge_pure_returns(s1, outs)

    def merge_pure_returns(self, base, outs):
        """several normal returns of an inlined call that left heap and ghost state untouched become ONE outcome whose
        value is the if-then-else of the individual values over their path conditions (keeps the path count a sum)"""
        normal = [(s, v) for s, v in outs if not isinstance(v, RaiseV)]

        def only_garbage(s, v):
            """the call changed no cell that existed before it, and its value refers to no cell it allocated"""
            if s.heap is base.heap:
                return True
            if any(s.heap.get(a) is not o for a, o in base.heap.items()):
                return False

            def fresh_ref(x):
                if isinstance(x, Ref):
                    return x.addr >= base.nalloc
                if isinstance(x, TupleV):
                    return any(fresh_ref(i) for i in x.items)
                if isinstance(x, Opt):
                    return fresh_ref(x.val)
                if isinstance(x, Rec):
                    return any(fresh_ref(i) for i in x.f.values())
                return False
            return not fresh_ref(v)
        if len(normal) < 2 or any(not only_garbage(s, v) or s.ghost is not base.ghost or s.held != base.held
                                  or len(s.pc) < len(base.pc) for s, v in normal):
            yield from outs
            return
        n = len(base.pc)
        try:
            acc = normal[-1][1]
            for s, v in reversed(normal[:-1]):
                delta = list(s.pc[n:])
                acc = self.merge(base, z3.And(*delta) if delta else z3.BoolVal(True), v, acc)
        except Unsupported:
            yield from outs
            return
        covered = z3.Or(*[z3.And(*s.pc[n:]) if len(s.pc) > n else z3.BoolVal(True) for s, v in normal])
        merged = base._clone(pc=base.pc + (covered,), loc=normal[0][0].loc, nalloc=max(s.nalloc for s, v in normal))
        # (cells allocated inside the call are unreachable from the merged value: the heap stays the caller's)
        yield merged, acc
        for s, v in outs:
            if isinstance(v, RaiseV):
                yield s, v

    def call_by_contract(self, st, f, qual, args, kwargs):
        raise Unsupported("contracts at call sites not configured")

    def opaque_spec_call(self, st, name, args):
        """codec mode: a spec function declared OPAQUE_IN_CODEC is an uninterpreted function of its (flattened)
        arguments - its definition is only used by the arithmetic-mode proofs"""
        flat = []
        for a in args:
            if isinstance(a, NoneV):
                flat.append(z3.BoolVal(True))
                flat.append(z3.RealVal(0))
                continue
            if isinstance(a, Opt):
                flat.append(a.isnone)
                a = a.val
            elif self.is_num(a) and is_real(a):
                flat.append(z3.BoolVal(False))
            if not is_term(a):
                raise Unsupported(f"opaque spec function {name}: non-scalar argument")
            flat.append(a)
        rng = z3.RealSort() if name in self.real_spec else self.T.val(0).sort()
        fn = self.get_uf("spec." + name, [x.sort() for x in flat], rng)
        self.used_assumptions.add(f"spec function {name} is uninterpreted in codec mode (defined and used in arithmetic-mode obligations)")
        return fn(*flat)

    # ------------------------------------------------------------------ constructors
    def construct(self, st, ci, args, kwargs):
        if ci.is_enum:
            if len(args) != 1:
                raise Unsupported("Enum() arity")
            yield from self.enum_lookup(st, ci, args[0])
            return
        if self.repo.is_exception_class(ci):
            yield st, ExcV(ci.name, ci, args)
            return
        qual_init = None
        fm_init = self.repo.find_method(ci, "__init__")
        if fm_init is not None:
            qual_init = f"{fm_init[0].module}:{fm_init[0].name}.__init__"
        if ci.is_dataclass and fm_init is None:
            yield from self.construct_dataclass(st, ci, args, kwargs)
            return
        # plain class: allocate and run __init__
        s1, ref = st.alloc(Obj(ci, "obj", {}))
        if fm_init is None:
            if args or kwargs:
                raise Unsupported(f"{ci.name}() takes no arguments")
            yield s1, ref
            return
        c, fn = fm_init
        f = FuncV(c.module, fn, c, None, qual_init)
        for s2, r in self.call_function(s1, f, [ref] + list(args), kwargs):
            if isinstance(r, RaiseV):
                yield s2, r
            else:
                yield s2, ref

    def construct_dataclass(self, st, ci, args, kwargs):
        fields = self.repo.all_fields(ci)
        init_fields = [f for f in fields if f.init]
        vals = {}
        if len(args) > len(init_fields):
            raise Unsupported(f"too many arguments for {ci.name}")
        for f, v in zip(init_fields, args):
            vals[f.name] = v
        for k, v in kwargs.items():
            if k not in [f.name for f in init_fields]:
                yield st, RaiseV(self.exc("TypeError", f"unexpected keyword {k}"))
                return
            vals[k] = v
        alts = [(st, vals)]
        for f in fields:
            if f.name in vals:
                continue
            nxt = []
            for s0, v0 in alts:
                sd = s0.with_loc({"$module": ci.module, "$qual": "<default>", "$depth": s0.loc.get("$depth", 0)})
                if f.default_factory is not None:
                    gen = self.call_default_factory(sd, f.default_factory)
                elif f.default is not None:
                    gen = self.ev(f.default, sd)
                else:
                    yield s0, RaiseV(self.exc("TypeError", f"missing argument {f.name}"))
                    continue
                for s1, v in gen:
                    if isinstance(v, RaiseV):
                        yield s1.with_loc(s0.loc), v
                        continue
                    v1 = dict(v0)
                    v1[f.name] = v
                    nxt.append((s1.with_loc(s0.loc), v1))
            alts = nxt
        post = self.repo.find_method(ci, "__post_init__")
        for s0, v0 in alts:
            ordered = {f.name: v0[f.name] for f in fields}
            if ci.frozen and (post is None or not self._post_init_mutates(post[1])):
                inst = Rec(ci, ordered)
                if post is None:
                    yield s0, inst
                    continue
                c, fn = post
                f = FuncV(c.module, fn, c, None, f"{c.module}:{c.name}.__post_init__")
                for s1, r in self.call_function(s0, f, [inst], {}):
                    yield (s1, r) if isinstance(r, RaiseV) else (s1, inst)
            else:
                s1, ref = s0.alloc(Obj(ci, "obj", ordered))
                if post is None:
                    yield s1, ref
                    continue
                c, fn = post
                f = FuncV(c.module, fn, c, None, f"{c.module}:{c.name}.__post_init__")
                for s2, r in self.call_function(s1, f, [ref], {}):
                    if isinstance(r, RaiseV):
                        yield s2, r
                    elif ci.frozen:
                        # frozen dataclass finalised by object.__setattr__ in __post_init__: snapshot by value
                        yield s2, Rec(ci, dict(s2.obj(ref).f))
                    else:
                        yield s2, ref

    def _post_init_mutates(self, fn):
        for n in ast.walk(fn):
            if isinstance(n, ast.Attribute) and n.attr == "__setattr__":
                return True
        return False

    def call_default_factory(self, st, expr):
        for s1, f in self.ev(expr, st):
            if isinstance(f, RaiseV):
                yield s1, f
            else:
                yield from self.call_value(s1, f, [], {})

    def enum_lookup(self, st, ci, v):
        members = ci.enum_members
        if isinstance(v, EnumV) and v.cls.qual == ci.qual:
            yield st, v
            return
        if self.enum_by_index(ci):
            vals = list(members.values())
            if isinstance(v, StrV) or (self.pyconst(v) is not None and not isinstance(v, (Rec, Ref))):
                c = v.s if isinstance(v, StrV) else self.pyconst(v)
                if c in vals:
                    yield st, EnumV(ci, self.intval(vals.index(c)))
                else:
                    yield st, RaiseV(self.exc("ValueError", f"not a valid {ci.name}"))
                return
            if isinstance(v, SymStr):
                hits = [(i, x) for i, x in enumerate(vals) if isinstance(x, str)]
                none = z3.And(*[v.term != self.str_id(x) for _, x in hits]) if hits else z3.BoolVal(True)
                for i, x in hits:
                    c = v.term == self.str_id(x)
                    if self.feasible(st.pc, c):
                        yield st.assume(c), EnumV(ci, self.intval(i))
                if self.feasible(st.pc, none):
                    yield st.assume(none), RaiseV(self.exc("ValueError", f"not a valid {ci.name}"))
                return
            yield st, RaiseV(self.exc("ValueError", f"not a valid {ci.name}"))
            return
        if not self.is_num(v):
            c = self.pyconst(v) if not isinstance(v, (Rec, Ref, EnumV)) else None
            if isinstance(v, StrV) and v.s in members.values():
                yield st, EnumV(ci, v.s)
            else:
                yield st, RaiseV(self.exc("ValueError", "not a valid enum value"))
            return
        if is_real(v):
            raise Unsupported("Enum(float)")
        x = self.to_int(v)
        ints = [m for m in members.values() if isinstance(m, int)]
        mem = z3.Or(*[x == self.intval(m) for m in ints]) if ints else z3.BoolVal(False)
        if self.feasible(st.pc, mem):
            yield st.assume(mem), EnumV(ci, x)
        if self.feasible(st.pc, z3.Not(mem)):
            yield st.assume(z3.Not(mem)), RaiseV(self.exc("ValueError", f"not a valid {ci.name}"))

    # ------------------------------------------------------------------ opaque values
    def opaque_call(self, st, o: Opaque, name, args, kwargs):
        h = self.opaque_handlers.get(o.typ)
        if h is None:
            raise Unsupported(f"call {name} on opaque {o.typ}")
        yield from h(self, st, o, name, args, kwargs)
