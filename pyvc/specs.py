"""Specification expressions (restricted Python, evaluated by the same engine) and use of contracts at call sites."""
from __future__ import annotations

import ast

import z3

from .shapes import Maker, Shape, T
from .values import (V, NONE, NoneV, Opt, StrV, EnumV, Rec, Ref, TupleV, BytesV, ClassV, FuncV, BoundV,
                     BuiltinV, ExcV, Opaque, RaiseV, Obj, Unsupported, is_term, is_bool, is_real)

GHOST_WORDS = ("ghost(", "n_sent", "sent0", "n_updates", "n_emitted", "emitted0", "n_timers", "timer0", "n_ls_requests",
               "the_cam", "gn_req", "handed()", "suppressed(", "the_denm", "n_denms")
SPEC_AST_FORMS = {"old", "implies", "forall", "exists", "ite", "iff"}


class SpecError(Exception):
    """A specification could not be evaluated (checker error, exit 3)."""


class SpecMixin:
    # ------------------------------------------------------------------ evaluation of spec expressions
    def spec_eval(self, st, text_or_ast, env, polarity="prove", module=None):
        """evaluate a specification expression to ONE z3 Bool / value in state st (paths are merged).
        env: names visible to the expression.  Raising inside a specification is a checker error."""
        node = ast.parse(text_or_ast, mode="eval").body if isinstance(text_or_ast, str) else text_or_ast
        loc = dict(env)
        loc.setdefault("$module", module)
        loc.setdefault("$qual", "<spec>")
        loc.setdefault("$depth", 0)
        s0 = st.with_loc(loc)
        if loc.get("$old") is not None:
            self.__dict__.setdefault("_old_stack", []).append(loc["$old"])
            pushed_old = True
        else:
            pushed_old = False
        self.spec_mode += 1
        self._undef_depth = getattr(self, "_undef_depth", 0) + 1
        saved_pol = getattr(self, "spec_polarity", "prove")
        self.spec_polarity = polarity
        try:
            outs = list(self.ev(node, s0))
        finally:
            self.spec_mode -= 1
            self._undef_depth -= 1
            if pushed_old:
                self._old_stack.pop()
            self.spec_polarity = saved_pol
        n = len(st.pc)
        res = None
        some_value = any(not isinstance(v, RaiseV) and not is_bool(v) for _, v in outs)
        for s1, v in reversed(outs):
            if isinstance(v, RaiseV):
                if some_value or getattr(self, "_undef_depth", 0) > 1:
                    # an undefined (raising) non-boolean sub-expression: remembered, and charged to the enclosing
                    # clause (must be unreachable when proving, makes the clause vacuous when assuming)
                    base = getattr(self, "_undef_base", n)
                    cond = list(s1.pc[base:])
                    self.__dict__.setdefault("_undef", []).append(z3.And(*cond) if cond else z3.BoolVal(True))
                    continue
                # a path on which the specification itself raises: the clause says nothing there when it is
                # assumed (weaker assumption) and is not met there when it has to be proved
                v = z3.BoolVal(polarity == "assume")
            delta = list(s1.pc[n:])
            if res is None:
                res = v
            else:
                c = z3.And(*delta) if delta else z3.BoolVal(True)
                res = self.merge(st, c, v, res)
        if res is None:
            if getattr(self, "_undef", None):
                return z3.BoolVal(polarity == "assume")
            raise SpecError("specification has no feasible evaluation (vacuous context): "
                            f"{text_or_ast if isinstance(text_or_ast, str) else ast.unparse(text_or_ast)}; pc feasible="
                            f"{self.feasible(st.pc)}")
        return res

    def spec_bool(self, st, text, env, polarity="prove", module=None):
        top = getattr(self, "_undef_depth", 0) == 0
        if top:
            self._undef = []
            self._undef_base = len(st.pc)
        v = self.truth(st, self.spec_eval(st, text, env, polarity, module))
        if top and self._undef:
            u = z3.Or(*self._undef)
            v = z3.And(v, z3.Not(u)) if polarity == "prove" else z3.Or(v, u)
            self._undef = []
        return v

    # ------------------------------------------------------------------ special forms (get unevaluated ASTs)
    def call_expr(self, e, st):
        if self.spec_mode and isinstance(e.func, ast.Name) and e.func.id in SPEC_AST_FORMS \
                and e.func.id not in st.loc:
            yield from getattr(self, "form_" + e.func.id)(e, st)
            return
        yield from super().call_expr(e, st)

    def _one(self, node, st):
        """single merged value of a pure sub-expression"""
        return self.spec_eval(st, node, st.loc, getattr(self, "spec_polarity", "prove"))

    def form_old(self, e, st):
        old = st.loc.get("$old")
        if old is None and getattr(self, "_old_stack", None):
            old = self._old_stack[-1]
        if old is None:
            raise SpecError("old() outside a two-state specification")
        env = dict(st.loc)
        env.update(st.loc.get("$oldenv", {}))
        s_old = old.with_loc(env)._clone(pc=st.pc)
        v = self.spec_eval(s_old, e.args[0], env, getattr(self, "spec_polarity", "prove"))
        # a heap reference denotes the same cell in both states: old(x) may only be compared by identity or
        # dereferenced inside another old(...)
        yield st, v

    def form_implies(self, e, st):
        a = self.truth(st, self._one(e.args[0], st))
        if not self.feasible(st.pc, a):
            yield st, z3.BoolVal(True)
            return
        b = self.truth(st, self._one(e.args[1], st.assume(a)))
        yield st, z3.Implies(a, b)

    def form_iff(self, e, st):
        a = self.truth(st, self._one(e.args[0], st))
        b = self.truth(st, self._one(e.args[1], st))
        yield st, a == b

    def form_ite(self, e, st):
        c = self.truth(st, self._one(e.args[0], st))
        ft, ff = self.feasible(st.pc, c), self.feasible(st.pc, z3.Not(c))
        if ft and not ff:
            yield st, self._one(e.args[1], st)
        elif ff and not ft:
            yield st, self._one(e.args[2], st)
        else:
            a = self._one(e.args[1], st.assume(c))
            b = self._one(e.args[2], st.assume(z3.Not(c)))
            yield st, self.merge(st, c, a, b)

    def _quant_vars(self, e, st):
        lam = e.args[0]
        if not isinstance(lam, ast.Lambda):
            raise SpecError("forall/exists needs a lambda")
        names = [a.arg for a in lam.args.args]
        kinds = {k.arg: ast.unparse(k.value) for k in e.keywords}
        vs = []
        for n in names:
            kd = kinds.get(n, "int")
            nm = self.fresh("q_" + n)
            if kd == "int":
                vs.append(self.T.const(nm))
            elif kd == "float":
                vs.append(z3.Real(nm))
            elif kd == "bool":
                vs.append(z3.Bool(nm))
            else:
                raise SpecError(f"quantified variable kind {kd}")
        return lam, names, vs

    def form_forall(self, e, st):
        lam, names, vs = self._quant_vars(e, st)
        loc = dict(st.loc)
        loc.update(dict(zip(names, vs)))
        body = self.truth(st, self.spec_eval(st, lam.body, loc, getattr(self, "spec_polarity", "prove")))
        if getattr(self, "spec_polarity", "prove") == "prove":
            self.__dict__.setdefault("witness_vars", []).extend(zip(names, vs))
            yield st, body          # fresh constants: validity of body for arbitrary values
        else:
            yield st, z3.ForAll(vs, body)

    def form_exists(self, e, st):
        lam, names, vs = self._quant_vars(e, st)
        loc = dict(st.loc)
        loc.update(dict(zip(names, vs)))
        body = self.truth(st, self.spec_eval(st, lam.body, loc, getattr(self, "spec_polarity", "prove")))
        if getattr(self, "spec_polarity", "prove") == "prove":
            yield st, z3.Exists(vs, body)
        else:
            yield st, body          # skolem constants

    # evaluated-argument forms
    def spec_form(self, st, name, args, kwargs):
        if name == "raised":
            raise SpecError("raised() is only meaningful in raises clauses")
        if name in ("set_has", "dq_len", "dq_maxlen", "dq_at", "dq_idx", "dq_lo", "dq_hi", "dq_at_pos", "dq_pos_of"):
            yield st, self.spec_container_form(st, name, args)
            return
        if name == "model":
            # a value computed by the collaborator model named in the contract's engine_setup (e.model_fns)
            fn = getattr(self, "model_fns", {}).get(args[0].s)
            if fn is None:
                raise SpecError(f"model({args[0].s!r}): no such model function")
            yield st, fn(self, st, args[1:])
            return
        if name in ("map_has", "map_get", "map_key0"):
            from .models import _map_entries, _map_find
            m = args[0]
            if isinstance(m, Opt):
                m = m.val
            if name == "map_key0":
                if not _map_entries(st, m):
                    raise SpecError(f"map_key0: map {m.ident} has no tracked entry in this state (maps: {[k for k in st.ghost if k.startswith('map:')]})")
                yield st, _map_entries(st, m)[0][0]
                return
            from .models import _map_find_alts
            saved_exact = self._exact
            self._exact = True          # aliasing of keys is decided by the solver, also inside specifications
            try:
                alts = list(_map_find_alts(self, st, m, args[1]))
            finally:
                self._exact = saved_exact
            for s1, idx in alts:
                if idx is None:
                    # a key the path never touched: defined only for maps whose initial content is a fixed function of
                    # the key (models.make_keyed_map_handler(initial=...)), else the clause says nothing
                    init = getattr(self.opaque_handlers.get(m.typ), "initial", None)
                    if init is not None:
                        p, v = init(self, s1, m, args[1])
                        yield s1, (p if name == "map_has" else v)
                        continue
                    yield s1, RaiseV(self.exc("SpecUndefined", "map_has/map_get on a key the path never touched"))
                    continue
                k, p, v = _map_entries(s1, m)[idx]
                yield s1, (p if name == "map_has" else v)
            return
        if name == "gcount":
            cur = st.ghost.get("#" + args[0].s)
            yield st, (cur[0] if cur else self.intval(0))
            return
        if name == "now":
            yield st, z3.Real("$now")
            return
        if name == "ghost":
            yield st, TupleV(list(st.ghost.get(args[0].s, ())))
            return
        if name == "timer_arg":
            t = args[0]
            i = self.pyconst(args[1])
            if not (isinstance(t, Opaque) and t.typ == "timer"):
                raise SpecError("timer_arg of a non-timer")
            yield st, t.data["args"][i]
            return
        if name == "timer_delay":
            yield st, args[0].data["delay"]
            return
        if name == "uf":
            # uf("name", "real"|"int"|"bool", *args): uninterpreted function application
            fname, rng = args[0].s, args[1].s
            xs = []
            for a in args[2:]:
                from .values import SymStr
                if isinstance(a, SymStr):
                    xs.append(a.term)
                    continue
                if isinstance(a, StrV):
                    xs.append(self.str_id(a.s))
                    continue
                if isinstance(a, Opt):
                    xs.append(a.isnone)
                    a = a.val
                elif isinstance(a, NoneV):
                    xs.append(z3.BoolVal(True))
                    a = z3.RealVal(0)
                elif is_real(a):
                    xs.append(z3.BoolVal(False))
                xs.append(a)
            rs = {"real": z3.RealSort(), "int": self.T.val(0).sort(), "bool": z3.BoolSort()}[rng]
            f = self.get_uf(fname, [x.sort() for x in xs], rs)
            yield st, f(*xs)
            return
        if name.startswith("fresh_"):
            nm = self.fresh(args[0].s if args else "v")
            yield st, {"fresh_int": self.T.const, "fresh_real": z3.Real, "fresh_bool": z3.Bool}[name](nm)
            return
        raise Unsupported(f"spec form {name}")

    # ------------------------------------------------------------------ contracts at call sites
    def call_by_contract(self, st, f, qual, args, kwargs):
        c = self.contracts[qual]
        self.used_assumptions.add(f"contract-of:{qual}")
        alts = self.bind_params(st, f.node, args, kwargs, f.module)
        import os
        trace = os.environ.get("PYVC_TRACE")
        for s1, loc in alts:
            n = 0
            for out in self.apply_contract(s1, c, f, loc):
                n += 1
                yield out
            if trace:
                print(f"[trace] contract {qual}: {n} outcome(s); pc feasible before: {self.feasible(s1.pc)}", flush=True)
            if n == 0 and self.feasible(s1.pc):
                # a call always has some outcome: losing every path here would make the caller's obligations vacuous
                raise SpecError(f"the contract of {qual} admits no outcome at a reachable call site (contradictory "
                                f"ensures / result shape): caller {st.loc.get('$qual')}")

    def result_shape(self, c, f):
        if c.returns is not None:
            return c.returns
        ann = f.node.returns
        if ann is None or (isinstance(ann, ast.Constant) and ann.value is None):
            return T.none
        return Maker(self).from_annotation(f.module, ann)

    def apply_contract(self, st, c, f, params):
        """assert requires, havoc modifies, assume ensures / raises"""
        env = dict(params)
        env["$module"] = c.spec_module
        caller_loc = st.loc
        # 1. preconditions become obligations of the caller
        for i, req in enumerate(c.requires):
            g = self.spec_bool(st, req, env, "prove", c.spec_module)
            self.add_obligation(st, f"call:{c.qual}/requires[{i}]", g, kind="precondition")
            st = st.assume(g)
        pre = st
        # 2. exceptional outcomes
        maker = Maker(self)
        never = []
        for exc_name, cond in c.raises.items():
            g = self.spec_bool(pre, cond, env, "assume", c.spec_module) if isinstance(cond, str) else z3.BoolVal(True)
            never.append(g)
            if self.feasible(pre.pc, g):
                yield pre.assume(g).with_loc(caller_loc), RaiseV(self.make_exc(exc_name))
        for exc_name in c.may_raise:
            # may be raised under unknown conditions (no postcondition knowledge)
            s_exc = self.havoc_modifies(pre, c, env, maker) if c.havoc_on_raise else pre
            yield s_exc.with_loc(caller_loc), RaiseV(self.make_exc(exc_name))
        ok = pre
        for g in never:
            ok = ok.assume(z3.Not(g))
        if not self.feasible(ok.pc):
            return
        # 3. normal outcome: havoc + fresh result + assume ensures
        post0 = self.havoc_modifies(ok, c, env, maker)
        from .shapes import expand_oneof
        for rs in expand_oneof(maker.resolve(self.result_shape(c, f))):
            post, result = maker.make(post0, rs, self.fresh(f"{c.short}.result"))
            env2 = dict(env)
            env2["result"] = result
            env2["$old"] = pre
            env2["$oldenv"] = dict(env)
            if c.ghost_effect is not None:
                post = c.ghost_effect(self, post, env2)
            dead = False
            n_before = len(post.pc)
            for label, text in c.ensures.items():
                if c.callsite_ensures is not None:
                    if label not in c.callsite_ensures:
                        continue
                elif any(w in text for w in GHOST_WORDS):
                    # clauses about ghost logs describe the callee run in isolation (logs start empty); the
                    # caller's logs are not updated by a contract application, so such clauses are not assumed
                    continue
                try:
                    g = self.spec_bool(post, text, env2, "assume", c.spec_module)
                except SpecError:
                    if not self.feasible(post.pc[:n_before], z3.And(*post.pc[n_before:]) if len(post.pc) > n_before
                                         else None):
                        dead = True
                        break
                    raise
                for f in getattr(self, "findings", []):
                    # a clause with a recorded known finding is only assumed outside the failing region
                    if f.get("obligation") == f"{c.qual}/ensures:{label}" and f.get("region"):
                        g = z3.Or(g, self.spec_bool(pre, f["region"], env, "assume", c.spec_module))
                        self.used_assumptions.add(f"known finding {f['id']}: clause {c.short}/{label} assumed only "
                                                  f"outside its failing region")
                post = post.assume(g)
            if not dead and (len(post.pc) == n_before or self.feasible(post.pc[:n_before],
                                                                        z3.And(*post.pc[n_before:]))):
                yield post.with_loc(caller_loc), result

    def make_exc(self, name):
        bare = name.split(":")[-1].split(".")[-1]
        if ":" in name:
            return ExcV(bare, self.repo.class_by_qual(name), ())
        return ExcV(name, None, ())

    def havoc_modifies(self, st, c, env, maker):
        """fresh values for every location in c.modifies (paths like 'self.state')"""
        paths = []
        for path in c.modifies:
            if path.endswith(".*"):
                sh = c.shapes.get(path.split(".")[0])
                for p in path.split(".")[1:-1]:
                    sh = getattr(sh, "fields", {}).get(p) if sh is not None else None
                if sh is None:
                    raise SpecError(f"modifies {path}: no shape to enumerate the fields from")
                paths.extend(path[:-1] + fname for fname in sh.fields)
            else:
                paths.append(path)
        for path in paths:
            parts = path.split(".")
            base = env.get(parts[0])
            cur = base
            for p in parts[1:-1]:
                outs = list(self.getattr(st, cur, p))
                if len(outs) != 1 or isinstance(outs[0][1], RaiseV):
                    raise SpecError(f"modifies path {path} is not a plain location")
                cur = outs[0][1]
            if not isinstance(cur, Ref):
                raise SpecError(f"modifies path {path}: owner is not a heap object")
            fld = parts[-1]
            ob = st.obj(cur)
            shape = c.field_shapes.get(path)
            if shape is None:
                sh = c.shapes.get(parts[0])
                for p in parts[1:]:
                    sh = getattr(sh, "fields", {}).get(p) if sh is not None else None
                if sh is not None and sh.kind != "oneof":
                    shape = sh
            if shape is None:
                shape = self.field_shape(ob, fld)
            curv = ob.f.get(fld)
            if isinstance(curv, Opaque) and shape.kind == "keymap" and ("map:" + str(curv.ident)) in st.ghost:
                from .models import map_havoc
                nm = self.fresh(f"{c.short}.{path}")
                st = map_havoc(self, st, curv, lambda s0: maker.make(s0, shape.value, self.fresh(nm + ".value")))
                continue
            st, v = maker.make(st, shape, self.fresh(f"{c.short}.{path}"))
            st = st.write_field(cur, fld, v)
        return st

    def field_shape(self, ob, fld):
        if ob.cls is not None and ob.cls.is_dataclass:
            for fi in self.repo.all_fields(ob.cls):
                if fi.name == fld:
                    decl = [k for k in self.repo.mro(ob.cls) if any(g is fi for g in k.fields)][0]
                    return Maker(self).from_annotation(decl.module, fi.annotation)
        raise SpecError(f"no shape known for havocked field {fld}; give field_shapes in the contract")
