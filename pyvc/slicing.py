"""Cone-of-influence slicing of path conditions: only constraints sharing (transitively) an uninterpreted symbol with
the query are sent to the solver.  Sound for validity (dropping hypotheses can only lose proofs); complete when the
dropped part is satisfiable on its own, which the executor maintains for every path condition it extends."""
import z3

_SYMS = {}


def symbols(t):
    key = t.get_id()
    hit = _SYMS.get(key)
    if hit is not None and hit[1].eq(t):
        return hit[0]
    out = set()
    seen = set()
    stack = [t]
    while stack:
        x = stack.pop()
        i = x.get_id()
        if i in seen:
            continue
        seen.add(i)
        if z3.is_quantifier(x):
            stack.append(x.body())
            continue
        if z3.is_app(x):
            d = x.decl()
            if d.kind() == z3.Z3_OP_UNINTERPRETED:
                out.add(d.name())
            stack.extend(x.children())
    fs = frozenset(out)
    _SYMS[key] = (fs, t)
    return fs


def relevant(pc, query_terms):
    """sub-list of pc connected to the query through shared symbols"""
    want = set()
    for q in query_terms:
        want |= symbols(q)
    if not want:
        return []
    items = [(c, symbols(c)) for c in pc]
    chosen = [False] * len(items)
    changed = True
    while changed:
        changed = False
        for i, (c, s) in enumerate(items):
            if not chosen[i] and (s & want):
                chosen[i] = True
                if not s <= want:
                    want |= s
                    changed = True
    return [c for (c, _), ok in zip(items, chosen) if ok]


def fold(t):
    """constant folding only: terms with uninterpreted symbols are returned as they are (z3.simplify on large
    bit-vector terms is far more expensive than the information it gives the executor)"""
    if z3.is_true(t) or z3.is_false(t) or z3.is_bv_value(t) or z3.is_int_value(t) or z3.is_rational_value(t):
        return t
    if symbols(t):
        return t
    return z3.simplify(t)
