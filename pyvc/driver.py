"""Check driver: ./check <property> [--tier quick|thorough] [--src DIR] [--replay FILE]

exit 0 held (possibly with KNOWN-FINDING lines) / 1 violation / 2 undecided / 3 checker error
"""
from __future__ import annotations

import argparse
import glob
import hashlib
import importlib
import json
import multiprocessing as mp
import os
import re
import subprocess
import sys
import time
import traceback

VERIF = os.path.dirname(os.path.dirname(os.path.abspath(__file__)))
NATIVE_PY = "/venv/bin/python"


def load_contracts():
    sys.path.insert(0, VERIF)
    from pyvc.contracts import REGISTRY
    for path in sorted(glob.glob(os.path.join(VERIF, "contracts", "c_*.py"))):
        importlib.import_module("contracts." + os.path.basename(path)[:-3])
    return REGISTRY


def spec_modules():
    return sorted(os.path.basename(p)[:-3] for p in glob.glob(os.path.join(VERIF, "contracts", "spec_*.py")))


def _verify_one(job):
    qual, src, timeout_ms, findings, case = job
    from pyvc.contracts import REGISTRY
    from pyvc.source import Repo, SourceError
    from pyvc.verify import FunctionVerifier
    from pyvc.values import Unsupported
    from pyvc.specs import SpecError
    t0 = time.time()
    out = {"qual": qual, "results": [], "error": None, "info": {}}
    try:
        repo = Repo(src, extra_roots=[os.path.join(VERIF, "contracts")])
        c = REGISTRY[qual]
        setup = None
        if getattr(c, "engine_setup", None):
            setup = c.engine_setup
        fv = FunctionVerifier(repo, c, REGISTRY, timeout_ms=timeout_ms, spec_modules=spec_modules(),
                              findings=findings,
                              setup=setup)
        if case == "count":
            out["cases"] = fv.count_cases()
            return out
        res = fv.run(only_case=case)
        out["results"] = [r.to_json() for r in res]
        info = dict(fv.info)
        info["assumptions"] = sorted(info.get("assumptions", []))
        info["paths"] = fv.paths
        out["info"] = info
    except (Unsupported, SpecError, SourceError) as e:
        out["error"] = f"{type(e).__name__}: {e}"
    except Exception as e:      # noqa
        out["error"] = f"{type(e).__name__}: {e}\n{traceback.format_exc()[-2000:]}"
    out["wall_s"] = round(time.time() - t0, 3)
    return out


def native_replay(src, c, model, clauses, witnesses=None):
    job = {"src": src, "qual": c.qual, "spec_modules": spec_modules(),
           "inputs": {k: v for k, v in model.items() if not k.startswith("$")},
           "clauses": clauses, "raises": c.raises, "may_raise": c.may_raise, "witnesses": witnesses or {},
           "contracts_dir": os.path.join(VERIF, "contracts"), "setup": getattr(c, "native_setup", None)}
    env = dict(os.environ)
    env["PYTHONPATH"] = src + os.pathsep + os.path.join(VERIF, "contracts")
    try:
        p = subprocess.run([NATIVE_PY, os.path.join(VERIF, "pyvc", "replay_native.py")], input=json.dumps(job),
                           capture_output=True, text=True, timeout=120, env=env)
        return json.loads(p.stdout), job
    except Exception as e:    # noqa
        return {"error": f"replay failed: {e}"}, job


def obligation_label(name):
    """'qual/ensures:label' -> ('ensures', 'label')"""
    tail = name.split("/", 1)[1]
    kind, _, label = tail.partition(":")
    return kind, label


def confirm(c, r, src):
    """replay a refuted obligation natively; returns (confirmed: bool|None, replay_output, job)"""
    if not r.get("model"):
        return None, {"note": "solver gave no concretisable model"}, None
    kind, label = obligation_label(r["name"])
    clauses = {}
    if kind == "ensures":
        clauses = {label: c.ensures[label]}
    wit = (r["model"] or {}).get("$witnesses")
    out, job = native_replay(src, c, r["model"], clauses, wit)
    if "error" in out:
        return None, out, job
    v = out.get("verdicts", {})
    if kind == "ensures":
        # only the clause's own native verdict counts; a native exception caused by a replay stand-in does not
        if v.get(label) is False:
            return True, out, job
        if v.get(label) is True:
            return False, out, job
        return None, out, job
    if kind == "raises":
        bad = [k for k, x in v.items() if x is False]
        if bad:
            return True, out, job
        return False, out, job
    if kind in ("frame", "precondition", "side"):
        return None, out, job
    return None, out, job


def main(argv=None):
    ap = argparse.ArgumentParser()
    ap.add_argument("prop")
    ap.add_argument("--tier", default=os.environ.get("VERIF_TIER", "quick"))
    ap.add_argument("--src", default="/repo/src")
    ap.add_argument("--replay")
    ap.add_argument("--jobs", type=int, default=16)
    ap.add_argument("--only", default="")
    ap.add_argument("--write-baseline", action="store_true")
    ap.add_argument("-v", action="store_true")
    a = ap.parse_args(argv)
    seed = int(os.environ.get("VERIF_SEED", "0") or 0)
    t0 = time.time()
    prop = a.prop
    os.environ["PYVC_TIER"] = a.tier        # the sidecar contracts widen their enumerated input shapes in the thorough tier
    try:
        registry = load_contracts()
    except Exception:
        traceback.print_exc()
        print("CHECKER-ERROR: cannot load contracts")
        return 3
    if a.replay:
        return replay_file(a.replay, registry, a.src)
    findings_doc = json.load(open(os.path.join(VERIF, "known_findings.json")))
    all_findings = findings_doc.get("findings", [])
    findings = [f for f in all_findings if f["property"] == prop]
    quals = [q for q, c in registry.items() if prop in c.props and not c.assumed and (not a.only or a.only in q)]
    lock_specs = []
    try:
        from contracts.locks import LOCKSPECS
        lock_specs = [sp for sp in LOCKSPECS if prop in sp.props]
    except Exception:
        traceback.print_exc()
    if not quals and not lock_specs:
        print(f"CHECKER-ERROR: no contracts registered for {prop}")
        return 3
    timeout_ms = 30000 if a.tier == "quick" else 120000
    with mp.get_context("fork").Pool(a.jobs) as pool:
        counts = pool.map(_verify_one, [(q, a.src, timeout_ms, all_findings, "count") for q in quals], chunksize=1)
        jobs = []
        pre_errors = []
        for q, cnt in zip(quals, counts):
            if cnt.get("error"):
                pre_errors.append(cnt)
                continue
            n = cnt.get("cases", 1)
            jobs.extend((q, a.src, timeout_ms, all_findings, (k if n > 1 else None)) for k in range(n))
        parts = pool.map(_verify_one, jobs, chunksize=1)
    # an obligation the solver did not decide within the budget is retried alone (fewer processes, four times the
    # budget): a verdict must not depend on how busy the machine was during the first pass
    retry = [k for k, o in enumerate(parts) if any(r.get("status") == "unknown" for r in o.get("results", []))]
    if retry:
        with mp.get_context("fork").Pool(min(4, len(retry))) as pool:
            redo = pool.map(_verify_one, [(jobs[k][0], jobs[k][1], timeout_ms * 4, jobs[k][3], jobs[k][4]) for k in retry], chunksize=1)
        for k, o in zip(retry, redo):
            if not o.get("error"):
                parts[k] = o
    merged = {}
    for o in pre_errors + parts:
        m = merged.setdefault(o["qual"], {"qual": o["qual"], "results": [], "error": None, "info": {}, "wall_s": 0})
        m["results"].extend(o.get("results", []))
        m["error"] = m["error"] or o.get("error")
        m["wall_s"] = round(m["wall_s"] + o.get("wall_s", 0), 3)
        for k, v in o.get("info", {}).items():
            if k in ("paths", "solver_calls", "input_cases") and isinstance(v, int) and k in m["info"] and k != "input_cases":
                m["info"][k] += v
            elif k == "assumptions":
                m["info"][k] = sorted(set(m["info"].get(k, [])) | set(v))
            else:
                m["info"].setdefault(k, v)
    outs = list(merged.values())
    # a cover goal is a reachability witness for the contract as a whole: one input case reaching it suffices
    for o in outs:
        reached = {r["name"].split("@")[0] for r in o["results"] if r["kind"] in ("cover", "canary") and r["status"] == "proved"}
        for r in o["results"]:
            if r["kind"] in ("cover", "canary") and r["status"] != "proved" and r["name"].split("@")[0] in reached:
                r["status"] = "proved"
                r["detail"] = "reached / refuted in another input case"

    errors, undecided, violations, known_seen = [], [], [], []
    bounded = {"obligations": 0, "bounds": []}
    n_obl = n_dis = 0
    backends = {}
    solver_s = 0.0
    functions = []
    samples = []
    trusted = set()
    baseline_path = os.path.join(VERIF, "baseline_obligations.json")
    baseline = json.load(open(baseline_path)) if os.path.exists(baseline_path) else {}
    base_names = set(baseline.get(prop, []))
    all_names = set()
    os.makedirs(os.path.join(VERIF, "replays", prop), exist_ok=True)
    for o in outs:
        c = registry[o["qual"]]
        if o["error"]:
            errors.append(f"{o['qual']}: {o['error']}")
            continue
        functions.append({"function": o["qual"], "source_hash": o["info"].get("source_hash"),
                          "lines": o["info"].get("lines"), "paths": o["info"].get("paths"),
                          "mode": c.mode, "obligations": len(o["results"]), "wall_s": o["wall_s"],
                          "assumed": bool(c.assumed), "bounded": c.bound})
        if c.bound:
            bounded["obligations"] += len(o["results"])
            bounded["bounds"].append(f"{c.short}: {c.bound}")
        for x in o["info"].get("assumptions", []):
            trusted.add(x)
        if c.float_as_real:
            trusted.add(f"{o['qual']}: machine floats treated as mathematical reals")
        for t in c.trusted:
            trusted.add(t)
        seen_known = set()
        for r in o["results"]:
            n_obl += 1
            all_names.add(r["name"])
            solver_s += r.get("time", 0) or 0
            if r.get("backend"):
                backends[r["backend"]] = backends.get(r["backend"], 0) + 1
            for k in r.get("known", []) or []:
                if k.get("still_fails") and k["id"] not in seen_known:
                    seen_known.add(k["id"])
                    f = [f for f in all_findings if f["id"] == k["id"]][0]
                    conf = None
                    if k.get("model"):
                        kind, label = obligation_label(r["name"])
                        rr = dict(r)
                        rr["model"] = k["model"]
                        conf, rep, _ = confirm(c, rr, a.src)
                    known_seen.append({"id": k["id"], "obligation": r["name"], "native_replay_confirms": conf,
                                       "input": k.get("model")})
                    print(f"KNOWN-FINDING: property={f['property']} {f['id']} {f['what']}")
            if r["status"] == "proved":
                n_dis += 1
                if len(samples) < 4 and r["kind"] in ("ensures", "raises"):
                    samples.append({"obligation": r["name"], "path": r.get("path"), "backend": r.get("backend"),
                                    "seconds": r.get("time")})
                continue
            if r["kind"] in ("canary", "cover", "vacuity"):
                errors.append(f"{r['name']}: {r.get('detail', '')}")
                continue
            if r["status"] == "unknown":
                undecided.append(r["name"])
                continue
            # refuted
            conf, rep, job = confirm(c, r, a.src)
            fname = re.sub(r"[^A-Za-z0-9_.-]+", "_", r["name"])[:150] + ".json"
            rpath = os.path.join(VERIF, "replays", prop, fname)
            doc = {"property": prop, "obligation": r["name"], "path": r.get("path"), "solver": r.get("backend"),
                   "solver_output": "sat (counter-model below)" if r.get("model") else "sat / no model extracted",
                   "input": r.get("model"), "native_replay": rep, "confirmed_on_real_code": conf,
                   "clause": c.ensures.get(obligation_label(r["name"])[1]),
                   "rerun": f"cd /verif && ./check {prop} --replay {os.path.relpath(rpath, VERIF)}",
                   "job": job}
            if conf is True:
                json.dump(doc, open(rpath, "w"), indent=1)
                violations.append((r["name"], rpath, ""))
            elif r["name"] in base_names or not base_names:
                doc["note"] = "obligation discharged on the unchanged tree now fails; the solver's model did not " \
                              "replay to a concrete failing input"
                json.dump(doc, open(rpath, "w"), indent=1)
                violations.append((r["name"], rpath, " no-failing-input-found"))
            else:
                undecided.append(r["name"] + " (refuted, not replayable, no baseline)")
    # ---- ownership / lock-order obligations (C15, C16)
    lock_results = []
    if lock_specs and not a.only:
        from pyvc.source import Repo
        from pyvc.lockcheck import check as lock_check
        lrepo = Repo(a.src)
        for sp in lock_specs:
            try:
                if getattr(sp, "identity", False):
                    from pyvc.lockcheck import check_identity
                    res = check_identity(lrepo, sp)
                else:
                    res = lock_check(lrepo, sp)
            except Exception as e:      # noqa
                errors.append(f"lock discipline of {sp.cls_qual}: {type(e).__name__}: {e}")
                continue
            if getattr(sp, "identity", False):
                functions.append({"function": sp.cls_qual + " (identifier-covers-every-field obligations)", "obligations": len(res),
                                  "mode": "structure", "assumed": False})
                if sp.note:
                    trusted.add(sp.note)
                for r in res:
                    n_obl += 1
                    all_names.add(r["name"])
                    backends["structure-analysis"] = backends.get("structure-analysis", 0) + 1
                    if r["status"] == "proved":
                        n_dis += 1
                        continue
                    fname = re.sub(r"[^A-Za-z0-9_.-]+", "_", r["name"])[:150] + ".json"
                    rpath = os.path.join(VERIF, "replays", prop, fname)
                    json.dump({"property": prop, "obligation": r["name"], "kind": "structure", "source_line": r["line"],
                               "solver_output": r["detail"], "input": None}, open(rpath, "w"), indent=1)
                    violations.append((r["name"], rpath, " no-failing-input-found"))
                continue
            functions.append({"function": sp.cls_qual + " (guarded_by / lock-order obligations)", "obligations": len(res),
                              "mode": "ownership", "assumed": False})
            trusted.add("monitor meta-theorem (cited, not machine-checked): with every access of a guarded field inside its "
                        "lock and an acyclic lock order, each interleaving's effect on that state is that of some "
                        "sequential order of the critical sections; CPython Lock/RLock semantics; atomicity of a single "
                        "attribute load")
            if sp.note:
                trusted.add(sp.note)
            for r in res:
                n_obl += 1
                all_names.add(r["name"])
                backends["ownership-analysis"] = backends.get("ownership-analysis", 0) + 1
                if r["status"] == "proved":
                    n_dis += 1
                    if len(lock_results) < 3:
                        lock_results.append({"obligation": r["name"], "detail": r["detail"]})
                    continue
                fname = re.sub(r"[^A-Za-z0-9_.-]+", "_", r["name"])[:150] + ".json"
                rpath = os.path.join(VERIF, "replays", prop, fname)
                json.dump({"property": prop, "obligation": r["name"], "kind": r["kind"], "source_line": r["line"],
                           "solver_output": r["detail"], "input": None,
                           "note": "ownership / lock-order obligation failed: no schedule is constructed by this family "
                                   "of technique (a failing interleaving exists by the monitor argument's converse only "
                                   "informally)"}, open(rpath, "w"), indent=1)
                violations.append((r["name"], rpath, " no-failing-input-found"))
    samples.extend(lock_results)
    if a.write_baseline:
        baseline[prop] = sorted(all_names)
        json.dump(baseline, open(baseline_path, "w"), indent=0, sort_keys=True)
    wall = round(time.time() - t0, 2)
    status = 0
    if errors:
        status = 3
    elif violations:
        status = 1
    elif undecided:
        status = 2
    evidence = {
        "property_id": prop, "tier": a.tier if a.tier in ("quick", "thorough") else "quick", "seed": seed,
        "level": "proof",
        "coverage": {
            "obligations": n_obl, "discharged": n_dis,
            "checker_cmd": f"./check {prop} --tier {a.tier}",
            "trusted_base": sorted(trusted) + GLOBAL_ASSUMPTIONS,
            "backends": backends, "solver_seconds": round(solver_s, 3),
            "functions_under_contract": functions,
            "samples": samples,
            "undecided": undecided, "checker_errors": errors,
            "bounded_stand_in": {"obligations": bounded["obligations"], "bounds": sorted(set(bounded["bounds"])),
                                 "note": "obligations of contracts whose INPUT SHAPES are enumerated up to the stated bound: discharged "
                                         "by the same solver for every value of every enumerated shape, but not a proof for larger "
                                         "shapes; the remaining obligations hold for all inputs"},
            "known_findings_seen": known_seen,
            "rule": "one obligation per (contract clause | raise site | frame location | callee precondition | "
                    "shift-overflow side condition) per feasible path of the real function body, plus vacuity, "
                    "cover and canary checks per function",
        },
        "assumptions": sorted(trusted) + GLOBAL_ASSUMPTIONS,
        "wall_s": wall, "violations": len(violations),
    }
    os.makedirs(os.path.join(VERIF, "evidence"), exist_ok=True)
    json.dump(evidence, open(os.path.join(VERIF, "evidence", f"{prop}.json"), "w"), indent=1)
    for e in errors:
        print("CHECKER-ERROR:", e)
    for u in undecided:
        print("UNDECIDED:", u)
    seen_v = set()
    for name, rpath, suffix in violations:
        if name in seen_v:
            continue
        seen_v.add(name)
        print(f"  failed obligation: {name}")
        print(f"VIOLATION property={prop} replay={rpath}{suffix}")
    print(f"{prop}: obligations={n_obl} discharged={n_dis} violations={len(violations)} undecided={len(undecided)} "
          f"errors={len(errors)} known={len(known_seen)} functions={len(functions)} wall={wall}s")
    return status


GLOBAL_ASSUMPTIONS = [
    "pyvc (self-built VC generator): Python semantics as encoded in DESIGN.md §1.3",
    "inputs are well-typed per the declared shapes / annotations",
    "no monkey-patching; attribute and method lookup resolve statically through the MRO read from source",
    "z3 5.1.0 / cvc5 1.0.3 are sound",
]


def replay_file(path, registry, src):
    doc = json.load(open(path if os.path.isabs(path) else os.path.join(VERIF, path)))
    qual = doc["obligation"].split("/")[0]
    c = registry[qual]
    r = {"name": doc["obligation"], "model": doc["input"]}
    conf, rep, _ = confirm(c, r, src)
    print(json.dumps(rep, indent=1))
    if conf:
        print(f"VIOLATION property={doc['property']} replay={path}")
        return 1
    print("replay does not fail on this tree")
    return 0


if __name__ == "__main__":
    sys.exit(main())
