"""Assumed behaviour of opaque collaborators and external library functions (the trusted stubs of DESIGN §1.4).
Every model used by an obligation is recorded in engine.used_assumptions and ends up in the evidence."""
from __future__ import annotations

import z3

from .values import (NONE, NoneV, Opt, StrV, EnumV, Rec, Ref, TupleV, BytesV, ClassV, FuncV, BoundV, BuiltinV,
                     ExcV, Opaque, RaiseV, Obj, Unsupported, is_term, is_real)

LL_EXC = "flexstack.linklayer.exceptions"


def _ident(e, typ, base):
    sort = z3.DeclareSort("Obj_" + typ)
    return z3.Const(e.fresh(base), sort)


# ---------------------------------------------------------------------------------------------- opaque objects
def h_lock(e, st, o, name, args, kwargs):
    e.used_assumptions.add("threading.Lock/RLock: mutual exclusion as documented (locks only tracked for ownership)")
    if name in ("acquire",):
        yield e.lock_acquire(st, o), z3.BoolVal(True)
    elif name == "release":
        yield e.lock_release(st, o), NONE
    elif name == "locked":
        yield st, z3.BoolVal(any(h is o for h in st.held))
    else:
        raise Unsupported(f"lock.{name}")


def h_logger(e, st, o, name, args, kwargs):
    yield st, NONE


def h_event(e, st, o, name, args, kwargs):
    e.used_assumptions.add("threading.Event: set/clear/wait have no effect on verified state")
    if name in ("set", "clear"):
        yield st.ghost_append("events", TupleV([StrV(name)])), NONE
    elif name in ("wait", "is_set"):
        yield st, z3.Bool(e.fresh("event_flag"))
    else:
        raise Unsupported(f"event.{name}")


def h_link_layer(e, st, o, name, args, kwargs):
    e.used_assumptions.add("LinkLayer.send: appends the frame to the ghost ether, or raises PacketTooLongException / "
                           "SendingException without sending (loss-free ether otherwise)")
    if name != "send":
        raise Unsupported(f"link_layer.{name}")
    pkt = args[0]
    yield st.ghost_append("sent", pkt), NONE
    yield st, RaiseV(ExcV("PacketTooLongException", e.repo.class_by_qual(f"{LL_EXC}:PacketTooLongException"), ()))
    yield st, RaiseV(ExcV("SendingException", e.repo.class_by_qual(f"{LL_EXC}:SendingException"), ()))


def h_callback(e, st, o, name, args, kwargs):
    e.used_assumptions.add("registered callbacks return normally (a ghost log records each invocation)")
    if name != "__call__":
        raise Unsupported(f"callback.{name}")
    yield st.ghost_append("callbacks", TupleV([o] + list(args))), NONE


def h_time_fn(e, st, o, name, args, kwargs):
    e.used_assumptions.add("time source: one ghost real `now` per verified call (the clock does not advance inside a call)")
    if name != "__call__":
        raise Unsupported(f"time_fn.{name}")
    yield st, z3.Real("$now")


def h_sym_seq(e, st, o, name, args, kwargs):
    raise Unsupported(f"symbolic sequence .{name}")


def h_timer(e, st, o, name, args, kwargs):
    e.used_assumptions.add("threading.Timer: a pending call recorded in a ghost log; start/cancel never raise")
    if name == "start":
        yield st.ghost_append("timers_started", o), NONE
    elif name == "cancel":
        yield st.ghost_append("timers_cancelled", o), NONE
    elif name == "__setattr__":
        yield st, NONE
    elif name in ("is_alive",):
        yield st, z3.Bool(e.fresh("alive"))
    elif name == "join":
        yield st, NONE
    else:
        raise Unsupported(f"timer.{name}")


def h_thread(e, st, o, name, args, kwargs):
    if name in ("start", "join", "__setattr__"):
        yield st.ghost_append("threads", TupleV([StrV(name), o])), NONE
    elif name == "is_alive":
        yield st, z3.Bool(e.fresh("alive"))
    else:
        raise Unsupported(f"thread.{name}")


# ---------------------------------------------------------------------------------------------- external functions
def x_lock(e, st, args, kwargs):
    yield st, Opaque("lock", _ident(e, "lock", "lock"))


def x_event(e, st, args, kwargs):
    yield st, Opaque("event", _ident(e, "event", "event"))


def x_timer(e, st, args, kwargs):
    delay = args[0] if args else kwargs.get("interval")
    fn = args[1] if len(args) > 1 else kwargs.get("function")
    targs = kwargs.get("args", args[2] if len(args) > 2 else None)
    items = e.iter_items(st, targs) if targs is not None else []
    yield st, Opaque("timer", _ident(e, "timer", "timer"), {"delay": delay, "fn": fn, "args": items})


def x_thread(e, st, args, kwargs):
    yield st, Opaque("thread", _ident(e, "thread", "thread"), {"target": kwargs.get("target")})


def _uf1(name):
    def h(e, st, args, kwargs):
        e.used_assumptions.add(f"math.{name}: uninterpreted real function (only facts valid for any interpretation)")
        f = e.get_uf(name, [z3.RealSort()], z3.RealSort())
        yield st, f(e.to_real(args[0]))
    return h


def pi_const(e):
    return z3.Real("math.pi")


def x_radians(e, st, args, kwargs):
    e.used_assumptions.add("math.radians(x) = x * pi / 180 with pi an unspecified positive real")
    x = e.to_real(args[0])
    from .slicing import fold
    fx = fold(x)
    if z3.is_rational_value(fx) and fx.numerator_as_long() == 0:
        yield st, z3.RealVal(0)          # radians(0) is 0 whatever pi is (keeps the query linear)
        return
    yield st, x * pi_const(e) / 180


def x_sqrt(e, st, args, kwargs):
    e.used_assumptions.add("math.sqrt: uninterpreted with sqrt(x) >= 0 and sqrt(x)^2 = x for x >= 0")
    x = e.to_real(args[0])
    neg = x < 0
    if e.feasible(st.pc, neg):
        yield st.assume(neg), RaiseV(e.exc("ValueError", "math domain error"))
    if e.feasible(st.pc, z3.Not(neg)):
        f = e.get_uf("sqrt", [z3.RealSort()], z3.RealSort())
        r = f(x)
        yield st.assume(z3.Not(neg)).assume(z3.And(r >= 0, r * r == x)), r


def x_trunc(e, st, args, kwargs):
    a = args[0]
    yield st, (e.T.from_real_trunc(a) if is_real(a) else e.to_int(a))


def x_atan2(e, st, args, kwargs):
    e.used_assumptions.add("math.atan2: uninterpreted real function")
    f = e.get_uf("atan2", [z3.RealSort(), z3.RealSort()], z3.RealSort())
    yield st, f(e.to_real(args[0]), e.to_real(args[1]))


def x_time(e, st, args, kwargs):
    """wall clock: ghost real `$now` (seconds), constant during one call of a function under contract"""
    e.used_assumptions.add("time source: one ghost real `now` per verified call, advanced only by time.sleep")
    slept = st.ghost.get("#slept")
    yield st, (z3.Real("$now") + slept[0] if slept else z3.Real("$now"))


def x_monotonic(e, st, args, kwargs):
    """monotonic clock: every reading is a fresh real not smaller than the previous one; readings are logged in ghost('mono')"""
    e.used_assumptions.add("time.monotonic(): successive readings are arbitrary non-decreasing reals")
    r = z3.Real(e.fresh("mono"))
    prev = st.ghost.get("mono")
    s1 = st
    if prev:
        s1 = s1.assume(r >= prev[-1])
    yield s1.ghost_append("mono", r), r


def x_sleep(e, st, args, kwargs):
    e.used_assumptions.add("time.sleep(d) advances the ghost clock by exactly d seconds")
    d = e.to_real(args[0])
    neg = d < 0
    if e.feasible(st.pc, neg):
        yield st.assume(neg), RaiseV(e.exc("ValueError", "sleep length must be non-negative"))
    if e.feasible(st.pc, z3.Not(neg)):
        yield st.assume(z3.Not(neg)).ghost_count("slept", d), NONE


def x_uniform(e, st, args, kwargs):
    e.used_assumptions.add("random.uniform(a, b): arbitrary real in [min(a,b), max(a,b)]")
    a, b = e.to_real(args[0]), e.to_real(args[1])
    r = z3.Real(e.fresh("uniform"))
    yield st.assume(z3.Or(z3.And(a <= r, r <= b), z3.And(b <= r, r <= a))), r


def x_randint(e, st, args, kwargs):
    e.used_assumptions.add("random.randint(a, b): arbitrary integer in [a, b]")
    a, b = e.to_int(args[0]), e.to_int(args[1])
    r = e.T.const(e.fresh("randint"))
    yield st.assume(z3.And(a <= r, r <= b)), r


def x_cast(e, st, args, kwargs):
    yield st, args[1]


def x_replace(e, st, args, kwargs):
    """dataclasses.replace(obj, **changes) for by-value records"""
    o = args[0]
    if isinstance(o, Rec):
        f = dict(o.f)
        for k, v in kwargs.items():
            if k not in f:
                yield st, RaiseV(e.exc("TypeError", f"unexpected field {k}"))
                return
            f[k] = v
        post = e.repo.find_method(o.cls, "__post_init__")
        if post is not None:
            raise Unsupported("dataclasses.replace on a class with __post_init__")
        yield st, Rec(o.cls, f)
        return
    raise Unsupported("dataclasses.replace on a heap object")


def x_deque(e, st, args, kwargs):
    items = e.iter_items(st, args[0]) if args else []
    ml = kwargs.get("maxlen", args[1] if len(args) > 1 else None)
    mlc = None
    if ml is not None and not isinstance(ml, NoneV):
        mlc = e.pyconst(ml)
        if mlc is None:
            if items:
                raise Unsupported("deque with symbolic maxlen and initial content")
            s1, ref = e.make_symdeque(st, e.fresh("deque"), ml)
            ex = s1.obj(ref).extra
            yield s1.assume(ex["lo"] == ex["hi"]), ref
            return
    yield st.alloc(Obj(None, "deque", None, list(items or []), {"maxlen": mlc}))


# ---------------------------------------------------------------------------------------------- struct (big-endian)
_STRUCT_SIZES = {"B": (1, False), "b": (1, True), "H": (2, False), "h": (2, True), "I": (4, False), "i": (4, True),
                 "L": (4, False), "l": (4, True), "Q": (8, False), "q": (8, True), "x": (1, None)}


def _struct_fields(fmt):
    """[(size, signed | None for padding)] of a standard-size big-endian format, or Unsupported"""
    if not isinstance(fmt, StrV):
        raise Unsupported("struct format that is not a literal string")
    f = fmt.s.replace(" ", "")
    if not f or f[0] not in ">!":
        raise Unsupported(f"struct format {fmt.s!r}: only big-endian standard-size formats ('>' / '!') are modelled")
    out, num = [], ""
    for ch in f[1:]:
        if ch.isdigit():
            num += ch
            continue
        if ch not in _STRUCT_SIZES:
            raise Unsupported(f"struct format code {ch!r}")
        out.extend([_STRUCT_SIZES[ch]] * (int(num) if num else 1))
        num = ""
    return out


def _struct_unpack(e, st, fields, data):
    size = sum(s for s, _ in fields)
    if not isinstance(data, BytesV):
        raise Unsupported("struct.unpack of a non-bytes value")
    n = e.bytes_const_len(data)
    if n is None:
        ln = e.bytes_len(data)
        ok = ln == e.intval(size)
        if e.feasible(st.pc, z3.Not(ok)):
            yield st.assume(z3.Not(ok)), RaiseV(e.exc("struct.error", f"unpack requires a buffer of {size} bytes"))
        if e.feasible(st.pc, ok):
            raise Unsupported("struct.unpack of a buffer of symbolic length (slice it to the exact size first)")
        return
    if n != size:
        yield st, RaiseV(e.exc("struct.error", f"unpack requires a buffer of {size} bytes"))
        return
    vals, off = [], 0
    for s, signed in fields:
        if signed is not None:
            vals.append(e.int_from_bytes(e.bytes_slice(st, data, off, off + s), signed))
        off += s
    yield st, TupleV(vals)


def x_struct_unpack(e, st, args, kwargs):
    e.used_assumptions.add("struct.unpack/pack: big-endian standard-size formats only; struct.error iff the buffer size differs")
    yield from _struct_unpack(e, st, _struct_fields(args[0]), args[1])


def x_struct_calcsize(e, st, args, kwargs):
    yield st, e.intval(sum(s for s, _ in _struct_fields(args[0])))


def x_struct_struct(e, st, args, kwargs):
    yield st, Opaque("struct_obj", None, {"fields": _struct_fields(args[0])})


def h_struct_obj(e, st, o, name, args, kwargs):
    e.used_assumptions.add("struct.unpack/pack: big-endian standard-size formats only; struct.error iff the buffer size differs")
    if name == "unpack":
        yield from _struct_unpack(e, st, o.data["fields"], args[0])
    else:
        raise Unsupported(f"struct.Struct.{name}")


def _deep_clone(e, st, v, memo):
    """copy.deepcopy of a heap value: containers are cloned, immutable values shared"""
    if isinstance(v, Ref):
        if v.addr in memo:
            return st, memo[v.addr]
        o = st.obj(v)
        if o.kind not in ("list", "dict", "set", "deque"):
            raise Unsupported("deepcopy of an object")
        st, nr = st.alloc(Obj(o.cls, o.kind, None, [], dict(o.extra) if o.extra else None))
        memo[v.addr] = nr
        items = []
        for it in o.items:
            if o.kind == "dict":
                st, val = _deep_clone(e, st, it[2], memo)
                items.append([it[0], it[1], val])
            else:
                st, val = _deep_clone(e, st, it, memo)
                items.append(val)
        no = st.obj(nr).copy()
        no.items = items
        return st.replace_obj(nr, no), nr
    if isinstance(v, TupleV):
        out = []
        for it in v.items:
            st, x = _deep_clone(e, st, it, memo)
            out.append(x)
        return st, TupleV(out)
    if isinstance(v, Opt):
        st, x = _deep_clone(e, st, v.val, memo)
        return st, Opt(v.isnone, x)
    return st, v


def x_deepcopy(e, st, args, kwargs):
    yield _deep_clone(e, st, args[0], {})


def x_copy(e, st, args, kwargs):
    v = args[0]
    if isinstance(v, Ref):
        o = st.obj(v)
        if o.kind not in ("list", "dict", "set"):
            raise Unsupported("copy of an object")
        no = o.copy()
        no.items = [list(it) if o.kind == "dict" else it for it in o.items]
        yield st.alloc(no)
    else:
        yield st, v


def x_getlogger(e, st, args, kwargs):
    yield st, Opaque("logger")


def install_default_models(e):
    pi = pi_const(e)
    e.external_values["math.pi"] = pi
    e.axioms.append(z3.And(pi > z3.RealVal("3.14159"), pi < z3.RealVal("3.1416")))
    e.external_handlers["logging.getLogger"] = x_getlogger
    inf = z3.Real("float.inf")
    e.float_inf = inf
    e.axioms.append(inf > z3.RealVal(10) ** 30)
    sin = e.get_uf("sin", [z3.RealSort()], z3.RealSort())
    cos = e.get_uf("cos", [z3.RealSort()], z3.RealSort())
    e.axioms.append(z3.And(sin(z3.RealVal(0)) == 0, cos(z3.RealVal(0)) == 1))
    e.opaque_handlers.update({"lock": h_lock, "rlock": h_lock, "logger": h_logger, "event": h_event,
                              "link_layer": h_link_layer, "callback": h_callback, "timer": h_timer,
                              "thread": h_thread, "cbf_buffer": make_keyed_map_handler(_fresh_timer, initial=_timer_map_initial),
                              "loc_t": make_keyed_map_handler(_fresh_any), "time_fn": h_time_fn, "any_list": h_any_list, "datetime": h_datetime,
                              "nearby_map": make_keyed_map_handler(_fresh_any), "keyed_keys": h_keyed_keys, "struct_obj": h_struct_obj})
    e.external_handlers.update({
        "threading.Lock": x_lock, "threading.RLock": x_lock, "threading.Event": x_event, "threading.Timer": x_timer,
        "threading.Thread": x_thread,
        "math.sin": _uf1("sin"), "math.cos": _uf1("cos"), "math.tan": _uf1("tan"), "math.atan": _uf1("atan"),
        "math.asin": _uf1("asin"), "math.radians": x_radians, "math.sqrt": x_sqrt,
        "typing.cast": x_cast, "dataclasses.replace": x_replace, "collections.deque": x_deque,
        "math.trunc": x_trunc, "math.atan2": x_atan2, "math.floor": lambda e, st, a, k: iter([(st, e.T.floor_real(e.to_real(a[0])))]),
        "dateutil.parser.parse": x_dateutil_parse, "dateutil.parser.parser.parse": x_dateutil_parse,
        "random.uniform": x_uniform, "random.randint": x_randint, "time.time": x_time, "time.sleep": x_sleep, "time.monotonic": x_monotonic,
        "flexstack.utils.time_service:TimeService.time": x_time,
        "copy.deepcopy": x_deepcopy, "copy.copy": x_copy,
        "struct.unpack": x_struct_unpack, "struct.calcsize": x_struct_calcsize, "struct.Struct": x_struct_struct,
    })


# ---------------------------------------------------------------------------------------------- structural keys
def skey(e, st, v):
    """structural key of a value: equal keys mean syntactically identical content (used to make the coder and the hash
    deterministic FUNCTIONS of their argument: same content, same result; different content, unrelated results)"""
    keep = e.__dict__.setdefault("_skey_keep", [])
    if isinstance(v, Ref):
        o = st.obj(v)
        if o.kind in ("list", "set", "deque"):
            return ("L", tuple(skey(e, st, x) for x in o.items))
        if o.kind == "dict":
            return ("D", tuple((skey(e, st, k), skey(e, st, p), skey(e, st, x)) for k, p, x in o.items))
        return ("R", v.addr)
    if isinstance(v, TupleV):
        return ("T", tuple(skey(e, st, x) for x in v.items))
    if isinstance(v, StrV):
        return ("s", v.s)
    if isinstance(v, BytesV):
        out = []
        for g in v.segs:
            out.append(tuple(skey(e, st, x) if not isinstance(x, (int, str)) else x for x in g))
        return ("b", tuple(out))
    if isinstance(v, Opt):
        return ("O", skey(e, st, v.isnone), skey(e, st, v.val))
    if isinstance(v, Opaque):
        return ("o", v.typ, str(v.ident))
    if isinstance(v, Rec):
        return ("rec", v.cls.qual if hasattr(v.cls, "qual") else str(v.cls), tuple((k, skey(e, st, x)) for k, x in sorted(v.f.items())))
    if hasattr(v, "get_id"):
        keep.append(v)
        return ("t", v.get_id())
    if v is NONE or v is None:
        return ("N",)
    if isinstance(v, (int, str, bool)):
        return ("c", v)
    return ("?", type(v).__name__, id(v))


# ---------------------------------------------------------------------------------------------- symbolic-key maps
def _map_entries(st, o):
    return st.ghost.get("map:" + str(o.ident), ())


def flatten_terms(e, v):
    """the z3 terms a (heap-free) value consists of, in a fixed order - used to make uninterpreted functions of values"""
    if is_term(v):
        return [v]
    if isinstance(v, Opt):
        # canonical: the payload of a None does not count (equal values must flatten to equal terms)
        out = [v.isnone]
        for t in flatten_terms(e, v.val):
            s = t.sort()
            zero = z3.BoolVal(False) if s == z3.BoolSort() else (z3.IntVal(0) if s == z3.IntSort() else
                                                                  (z3.RealVal(0) if s == z3.RealSort() else
                                                                   (z3.BitVecVal(0, s.size()) if z3.is_bv_sort(s) else None)))
            out.append(t if zero is None else z3.If(v.isnone, zero, t))
        return out
    if isinstance(v, NoneV):
        return []
    if isinstance(v, Rec):
        out = []
        for k in sorted(v.f):
            out += flatten_terms(e, v.f[k])
        return out
    if isinstance(v, TupleV):
        out = []
        for x in v.items:
            out += flatten_terms(e, x)
        return out
    if isinstance(v, EnumV):
        return flatten_terms(e, v.val) if not isinstance(v.val, (int, str)) else [e.intval(v.val) if isinstance(v.val, int) else e.str_id(v.val)]
    if isinstance(v, StrV):
        return [e.str_id(v.s)]
    if isinstance(v, Opaque) and v.ident is not None:
        return [v.ident]
    if isinstance(v, BytesV) and e.bytes_const_len(v) is not None:
        return [e.bytes_as_bv(v)] if e.bytes_const_len(v) > 0 else []
    raise Unsupported(f"value of kind {type(v).__name__} as a symbolic map key")


def _map_epoch(st, o):
    """bumped by every havoc of the map (contract application): the fixed initial content is per epoch"""
    return st.ghost.get("mapepoch:" + str(o.ident), (0,))[0]


def map_havoc(e, st, o, make_value):
    """the map object keeps its identity; every tracked key gets an arbitrary new presence and value, untouched keys a
    new epoch of arbitrary content"""
    ents = []
    for (k, p, v) in _map_entries(st, o):
        st, nv = make_value(st)
        ents.append((k, z3.Bool(e.fresh("map_has")), nv))
    g = dict(st.ghost)
    g["map:" + str(o.ident)] = tuple(ents)
    g["mapepoch:" + str(o.ident)] = (_map_epoch(st, o) + 1,)
    return st._clone(ghost=g)


def _map_find(e, st, o, key):
    ents = _map_entries(st, o)
    for i, (k, p, v) in enumerate(ents):
        same = _fold_eq(e, st, k, key)
        if same is None:
            t = e.eq(st, k, key)
            if e.valid(st.pc, t):
                same = True
            elif e.valid(st.pc, z3.Not(t)):
                same = False
        if same is True:
            return i
        if same is None:
            raise Unsupported("keyed map: cannot decide whether two symbolic keys alias (state it in the contract)")
    return None


def _fold_eq(e, st, a, b):
    if a is b:
        return True
    t = e.eq(st, a, b)
    from .slicing import fold
    t = fold(t)
    if z3.is_true(t):
        return True
    if z3.is_false(t):
        return False
    # structurally identical terms?
    try:
        if z3.is_true(z3.simplify(t)):
            return True
    except Exception:
        pass
    return None


def _map_set(st, o, idx, key, present, value):
    ents = list(_map_entries(st, o))
    if idx is None:
        ents.append((key, present, value))
    else:
        ents[idx] = (key, present, value)
    g = dict(st.ghost)
    g["map:" + str(o.ident)] = tuple(ents)
    return st._clone(ghost=g)


def _map_find_alts(e, st, o, key):
    """yield (state, index | None): which tracked entry `key` denotes, splitting on undecidable aliasing"""
    ents = _map_entries(st, o)

    def go(st, i):
        if i == len(ents):
            yield st, None
            return
        k = ents[i][0]
        same = _fold_eq(e, st, k, key)
        t = None
        if same is None:
            t = e.eq(st, k, key)
            if e.valid(st.pc, t):
                same = True
            elif e.valid(st.pc, z3.Not(t)):
                same = False
        if same is True:
            yield st, i
        elif same is False:
            yield from go(st, i + 1)
        else:
            yield st.assume(t), i
            yield from go(st.assume(z3.Not(t)), i + 1)
    yield from go(st, 0)


def make_keyed_map_handler(fresh_value, initial=None):
    """dict whose keys are symbolic: only the entries touched on a path are tracked; an untouched key is present or
    absent arbitrarily and holds an arbitrary value of the map's value kind.
    `initial(e, st, o, key) -> (presence, value)`: if given, the content at untouched keys is this FIXED FUNCTION of the
    key's value (per havoc epoch), so equal keys agree whatever their syntactic form"""
    def lookup(e, st, o, key):
        for s1, idx in _map_find_alts(e, st, o, key):
            if idx is None:
                if initial is not None:
                    p, v = initial(e, s1, o, key)
                else:
                    p = z3.Bool(e.fresh("map_has"))
                    s1, v = fresh_value(e, s1)
                s1 = _map_set(s1, o, None, key, p, v)
                idx = len(_map_entries(s1, o)) - 1
            yield s1, idx

    def h(e, st, o, name, args, kwargs):
        e.used_assumptions.add("dicts keyed by symbolic keys (CBF buffer, LS maps) are tracked entry-wise; untouched keys are arbitrary")
        if name == "__contains__":
            for s1, idx in lookup(e, st, o, args[0]):
                yield s1, _map_entries(s1, o)[idx][1]
        elif name in ("__getitem__", "get", "pop"):
            for s0, idx in lookup(e, st, o, args[0]):
                k, p, v = _map_entries(s0, o)[idx]
                if e.feasible(s0.pc, p):
                    s1 = s0.assume(p)
                    if name == "pop":
                        s1 = _map_set(s1, o, idx, k, z3.BoolVal(False), v)
                    yield s1, v
                if e.feasible(s0.pc, z3.Not(p)):
                    s2 = s0.assume(z3.Not(p))
                    if name == "__getitem__" or (name == "pop" and len(args) < 2):
                        yield s2, RaiseV(e.exc("KeyError", args[0]))
                    else:
                        yield s2, (args[1] if len(args) > 1 else NONE)
        elif name == "__setitem__":
            for s1, idx in _map_find_alts(e, st, o, args[0]):
                yield _map_set(s1, o, idx, args[0], z3.BoolVal(True), args[1]), NONE
        elif name == "__delitem__":
            for s0, idx in lookup(e, st, o, args[0]):
                k, p, v = _map_entries(s0, o)[idx]
                if e.feasible(s0.pc, p):
                    yield _map_set(s0.assume(p), o, idx, k, z3.BoolVal(False), v), NONE
                if e.feasible(s0.pc, z3.Not(p)):
                    yield s0.assume(z3.Not(p)), RaiseV(e.exc("KeyError", args[0]))
        elif name == "items":
            yield st, Opaque("keyed_items", None, {"map": o})
        elif name in ("values", "keys"):
            yield st, Opaque("keyed_" + name, None, {"map": o})
        elif name == "__len__":
            n = e.T.const(e.fresh("map_len"))
            yield st.assume(n >= e.intval(0)), n
        elif name == "setdefault":
            for s0, idx in lookup(e, st, o, args[0]):
                k, p, v = _map_entries(s0, o)[idx]
                if e.feasible(s0.pc, p):
                    yield s0.assume(p), v
                if e.feasible(s0.pc, z3.Not(p)):
                    yield _map_set(s0.assume(z3.Not(p)), o, idx, k, z3.BoolVal(True), args[1]), args[1]
        else:
            raise Unsupported(f"keyed map .{name}")
    h.initial = initial
    return h


def h_keyed_keys(e, st, o, name, args, kwargs):
    """`k in m.keys()` is `k in m`"""
    if name == "__contains__":
        m = o.data["map"]
        yield from e.opaque_handlers[m.typ](e, st, m, "__contains__", args, kwargs)
    else:
        raise Unsupported(f"keys view .{name}")


def _fresh_any(e, st):
    return st, Opaque("object", _ident(e, "object", "map_value"))


def _fresh_timer(e, st):
    return st, Opaque("timer", _ident(e, "timer", "old_timer"), {"delay": None, "fn": None, "args": []})


def _timer_map_initial(e, st, o, key):
    """content of a map key -> pending Timer at a key the path did not touch: presence and timer identity are fixed
    uninterpreted functions of the key's value (per map and havoc epoch)"""
    flat = flatten_terms(e, key)
    tag = f"{o.ident}@{_map_epoch(st, o)}"
    sort = z3.DeclareSort("Obj_timer")
    has = z3.Function(f"timers.has0[{tag}]", *[t.sort() for t in flat], z3.BoolSort())
    val = z3.Function(f"timers.timer0[{tag}]", *[t.sort() for t in flat], sort)
    return has(*flat), Opaque("timer", val(*flat), {"delay": None, "fn": None, "args": []})


def keyed_map_filter(e, st, o, keep):
    """new keyed map = {k: v for k, v in old.items() if keep(k, v)}; `keep` returns (state, Bool) alternatives.
    Tracked entries get presence  p and keep ; untracked keys stay arbitrary."""
    ents = _map_entries(st, o)
    new = Opaque(o.typ, _ident(e, o.typ, "filtered_map"), o.data)
    alts = [(st, [])]
    for (k, p, v) in ents:
        nxt = []
        for s0, acc in alts:
            for s1, c in keep(s0, k, v, p):
                nxt.append((s1, acc + [(k, z3.And(p, c), v)]))
        alts = nxt
    for s0, acc in alts:
        g = dict(s0.ghost)
        g["map:" + str(new.ident)] = tuple(acc)
        yield s0._clone(ghost=g), new


# ---------------------------------------------------------------------------------------------- misc opaque models
def h_any_list(e, st, o, name, args, kwargs):
    """a list whose content is irrelevant to the clauses proved (path history, buffers): length is a ghost int"""
    if name in ("append", "clear", "extend", "insert", "remove"):
        yield st, NONE
    elif name == "pop":
        yield st, Opaque("object", _ident(e, "object", "popped"))
    elif name == "__len__":
        n = e.T.const(e.fresh("list_len"))
        yield st.assume(n >= e.intval(0)), n
    else:
        raise Unsupported(f"list model .{name}")


def x_dateutil_parse(e, st, args, kwargs):
    e.used_assumptions.add("dateutil.parser.parse(s).timestamp(): an uninterpreted real function of the string (may raise on malformed input is NOT modelled)")
    s = args[0]
    from .values import SymStr, StrV
    term = s.term if isinstance(s, SymStr) else e.str_id(s.s) if isinstance(s, StrV) else z3.Int(e.fresh("strid"))
    yield st, Opaque("datetime", None, {"str": term})


def h_datetime(e, st, o, name, args, kwargs):
    if name == "timestamp":
        f = e.get_uf("timestamp_of", [z3.IntSort()], z3.RealSort())
        yield st, f(o.data["str"])
    else:
        raise Unsupported(f"datetime.{name}")
