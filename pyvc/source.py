"""Front end: read the real repository source with ``ast`` and build class / function tables.

Nothing is cached between runs.  A function is addressed as ``pkg.module:Class.method`` or
``pkg.module:function``.  What the front end drops is listed in DESIGN.md §1.2 (docstrings,
annotations as types only, logging calls, ``typing.cast``).
"""
from __future__ import annotations

import ast
import hashlib
import os
from dataclasses import dataclass, field
from typing import Dict, List, Optional, Tuple

REPO_SRC_DEFAULT = "/repo/src"


class SourceError(Exception):
    """The checker cannot find or read something it needs (exit 3)."""


@dataclass
class FieldInfo:
    name: str
    annotation: Optional[ast.expr]
    default: Optional[ast.expr] = None          # plain default expression
    default_factory: Optional[ast.expr] = None  # field(default_factory=...)
    init: bool = True


@dataclass
class ClassInfo:
    name: str
    module: str
    node: ast.ClassDef
    bases: List[str] = field(default_factory=list)          # raw base expressions (unparsed)
    is_enum: bool = False
    enum_members: Dict[str, object] = field(default_factory=dict)   # name -> python value
    is_dataclass: bool = False
    frozen: bool = False
    fields: List[FieldInfo] = field(default_factory=list)
    methods: Dict[str, ast.FunctionDef] = field(default_factory=dict)
    class_attrs: Dict[str, ast.expr] = field(default_factory=dict)  # non-dataclass-field class level assigns
    is_exception: bool = False

    @property
    def qual(self) -> str:
        return f"{self.module}:{self.name}"


@dataclass
class ModuleInfo:
    name: str
    path: str
    text: str
    tree: ast.Module
    classes: Dict[str, ClassInfo] = field(default_factory=dict)
    functions: Dict[str, ast.FunctionDef] = field(default_factory=dict)
    constants: Dict[str, ast.expr] = field(default_factory=dict)
    imports: Dict[str, Tuple[str, Optional[str]]] = field(default_factory=dict)  # local -> (module, name|None)


BUILTIN_EXC = {
    "BaseException": None, "Exception": "BaseException", "ArithmeticError": "Exception",
    "ZeroDivisionError": "ArithmeticError", "OverflowError": "ArithmeticError",
    "AssertionError": "Exception", "AttributeError": "Exception", "LookupError": "Exception",
    "IndexError": "LookupError", "KeyError": "LookupError", "NameError": "Exception",
    "OSError": "Exception", "RuntimeError": "Exception", "NotImplementedError": "RuntimeError",
    "TypeError": "Exception", "ValueError": "Exception", "StopIteration": "Exception",
    "UnicodeDecodeError": "ValueError", "TimeoutError": "OSError", "ConnectionError": "OSError",
    "IOError": "Exception", "EnvironmentError": "Exception", "struct.error": "Exception",
    "socket.timeout": "OSError",
}


def _deco_name(d: ast.expr) -> str:
    if isinstance(d, ast.Call):
        d = d.func
    if isinstance(d, ast.Attribute):
        return d.attr
    if isinstance(d, ast.Name):
        return d.id
    return ""


class Repo:
    def __init__(self, src_root: str = REPO_SRC_DEFAULT, extra_roots=()):
        self.src_root = src_root
        self.roots = [src_root] + list(extra_roots)
        self.modules: Dict[str, ModuleInfo] = {}

    # ------------------------------------------------------------------ loading
    def module_path(self, modname: str) -> Optional[str]:
        for root in self.roots:
            base = os.path.join(root, *modname.split("."))
            if os.path.isfile(base + ".py"):
                return base + ".py"
            if os.path.isfile(os.path.join(base, "__init__.py")):
                return os.path.join(base, "__init__.py")
        return None

    def has_module(self, modname: str) -> bool:
        return modname in self.modules or self.module_path(modname) is not None

    def module(self, modname: str) -> ModuleInfo:
        if modname in self.modules:
            return self.modules[modname]
        path = self.module_path(modname)
        if path is None:
            raise SourceError(f"module {modname} not found under {self.src_root}")
        text = open(path, encoding="utf-8").read()
        tree = ast.parse(text, filename=path)
        mi = ModuleInfo(modname, path, text, tree)
        self.modules[modname] = mi
        self._index(mi)
        return mi

    def _resolve_relative(self, mi: ModuleInfo, level: int, module: Optional[str]) -> str:
        if level == 0:
            return module or ""
        parts = mi.name.split(".")
        is_pkg = os.path.basename(mi.path) == "__init__.py"
        base = parts if is_pkg else parts[:-1]
        if level > 1:
            base = base[: len(base) - (level - 1)]
        return ".".join(base + ([module] if module else []))

    def _index(self, mi: ModuleInfo) -> None:
        def visit(stmts):
            for n in stmts:
                if isinstance(n, ast.ImportFrom):
                    src = self._resolve_relative(mi, n.level, n.module)
                    for a in n.names:
                        mi.imports[a.asname or a.name] = (src, a.name)
                elif isinstance(n, ast.Import):
                    for a in n.names:
                        if a.asname:
                            mi.imports[a.asname] = (a.name, None)
                        else:
                            mi.imports[a.name.split(".")[0]] = (a.name.split(".")[0], None)
                elif isinstance(n, ast.ClassDef):
                    mi.classes[n.name] = self._class_info(mi, n)
                elif isinstance(n, ast.FunctionDef):
                    mi.functions[n.name] = n
                elif isinstance(n, ast.Assign) and len(n.targets) == 1 and isinstance(n.targets[0], ast.Name):
                    mi.constants[n.targets[0].id] = n.value
                elif isinstance(n, ast.AnnAssign) and isinstance(n.target, ast.Name) and n.value is not None:
                    mi.constants[n.target.id] = n.value
                elif isinstance(n, ast.If):       # e.g. TYPE_CHECKING imports
                    visit(n.body)
                    visit(n.orelse)
                elif isinstance(n, ast.Try):
                    visit(n.body)
        visit(mi.tree.body)

    def _class_info(self, mi: ModuleInfo, n: ast.ClassDef) -> ClassInfo:
        ci = ClassInfo(n.name, mi.name, n)
        ci.bases = [ast.unparse(b) for b in n.bases]
        for d in n.decorator_list:
            if _deco_name(d) == "dataclass":
                ci.is_dataclass = True
                if isinstance(d, ast.Call):
                    for k in d.keywords:
                        if k.arg == "frozen" and isinstance(k.value, ast.Constant):
                            ci.frozen = bool(k.value.value)
        base_names = {b.split(".")[-1] for b in ci.bases}
        ci.is_enum = bool(base_names & {"Enum", "IntEnum", "Flag", "IntFlag"})
        for s in n.body:
            if isinstance(s, ast.FunctionDef):
                ci.methods[s.name] = s
            elif isinstance(s, ast.AnnAssign) and isinstance(s.target, ast.Name):
                ann = ast.unparse(s.annotation)
                if ci.is_dataclass and not ann.startswith("ClassVar"):
                    fi = FieldInfo(s.target.id, s.annotation)
                    v = s.value
                    if isinstance(v, ast.Call) and _deco_name(v) == "field":
                        for k in v.keywords:
                            if k.arg == "default":
                                fi.default = k.value
                            elif k.arg == "default_factory":
                                fi.default_factory = k.value
                            elif k.arg == "init" and isinstance(k.value, ast.Constant):
                                fi.init = bool(k.value.value)
                    elif v is not None:
                        fi.default = v
                    ci.fields.append(fi)
                elif s.value is not None:
                    ci.class_attrs[s.target.id] = s.value
            elif isinstance(s, ast.Assign) and len(s.targets) == 1 and isinstance(s.targets[0], ast.Name):
                name = s.targets[0].id
                if ci.is_enum:
                    try:
                        ci.enum_members[name] = ast.literal_eval(s.value)
                    except Exception:
                        ci.class_attrs[name] = s.value
                else:
                    ci.class_attrs[name] = s.value
        return ci

    # ------------------------------------------------------------------ lookup
    def resolve_name(self, modname: str, name: str, _depth: int = 0):
        """Resolve a module-level name to ('class', ClassInfo) | ('func', module, FunctionDef) |
        ('const', module, expr) | ('module', modname) | ('external', dotted) | None."""
        if _depth > 8:
            return None
        mi = self.module(modname)
        if name in mi.classes:
            return ("class", mi.classes[name])
        if name in mi.functions:
            return ("func", modname, mi.functions[name])
        if name in mi.constants:
            return ("const", modname, mi.constants[name])
        if name in mi.imports:
            src, sub = mi.imports[name]
            if sub is None:
                if self.has_module(src):
                    return ("module", src)
                return ("external", src)
            if self.has_module(src):
                r = self.resolve_name(src, sub, _depth + 1)
                if r is not None:
                    return r
                if self.has_module(src + "." + sub):
                    return ("module", src + "." + sub)
                return None
            return ("external", f"{src}.{sub}")
        return None

    def class_by_qual(self, qual: str) -> ClassInfo:
        mod, name = qual.split(":")
        mi = self.module(mod)
        if name not in mi.classes:
            r = self.resolve_name(mod, name)
            if r and r[0] == "class":
                return r[1]
            raise SourceError(f"class {qual} not found")
        return mi.classes[name]

    def base_classes(self, ci: ClassInfo) -> List[ClassInfo]:
        out = []
        for b in ci.bases:
            nm = b.split("[")[0]
            r = None
            if "." not in nm:
                r = self.resolve_name(ci.module, nm)
            else:
                head, attr = nm.split(".", 1)
                rr = self.resolve_name(ci.module, head)
                if rr and rr[0] == "module":
                    r = self.resolve_name(rr[1], attr)
            if r and r[0] == "class":
                out.append(r[1])
        return out

    def mro(self, ci: ClassInfo) -> List[ClassInfo]:
        out, seen = [], set()

        def rec(c):
            if c.qual in seen:
                return
            seen.add(c.qual)
            out.append(c)
            for b in self.base_classes(c):
                rec(b)
        rec(ci)
        return out

    def find_method(self, ci: ClassInfo, name: str) -> Optional[Tuple[ClassInfo, ast.FunctionDef]]:
        for c in self.mro(ci):
            if name in c.methods:
                return c, c.methods[name]
        return None

    def find_class_attr(self, ci: ClassInfo, name: str):
        for c in self.mro(ci):
            if name in c.class_attrs:
                return c, c.class_attrs[name]
            for f in c.fields:
                if f.name == name and f.default is not None:
                    return c, f.default
        return None

    def all_fields(self, ci: ClassInfo) -> List[FieldInfo]:
        out: List[FieldInfo] = []
        for c in reversed(self.mro(ci)):
            if c.is_dataclass:
                for f in c.fields:
                    out = [g for g in out if g.name != f.name] + [f]
        return out

    def is_subclass(self, ci: ClassInfo, other_name: str) -> bool:
        """other_name is a bare class name or a builtin exception name."""
        for c in self.mro(ci):
            if c.name == other_name:
                return True
            for b in c.bases:
                bn = b.split(".")[-1]
                if bn == other_name:
                    return True
                if bn in BUILTIN_EXC and builtin_exc_subclass(bn, other_name):
                    return True
        return False

    def is_exception_class(self, ci: ClassInfo) -> bool:
        return self.is_subclass(ci, "BaseException")

    def function(self, qual: str) -> Tuple[ModuleInfo, Optional[ClassInfo], ast.FunctionDef]:
        mod, name = qual.split(":")
        mi = self.module(mod)
        if "." in name:
            cname, fname = name.split(".", 1)
            if cname not in mi.classes:
                raise SourceError(f"class {mod}:{cname} not found (function {qual})")
            ci = mi.classes[cname]
            if fname not in ci.methods:
                raise SourceError(f"method {qual} not found in source")
            return mi, ci, ci.methods[fname]
        if name not in mi.functions:
            raise SourceError(f"function {qual} not found in source")
        return mi, None, mi.functions[name]

    def segment_hash(self, mi: ModuleInfo, node: ast.AST) -> str:
        seg = ast.get_source_segment(mi.text, node) or ""
        return hashlib.sha256(seg.encode()).hexdigest()[:16]


def builtin_exc_subclass(name: str, other: str) -> bool:
    n: Optional[str] = name
    while n is not None:
        if n == other:
            return True
        n = BUILTIN_EXC.get(n)
    return False


def is_static(fn: ast.FunctionDef) -> bool:
    return any(_deco_name(d) == "staticmethod" for d in fn.decorator_list)


def is_classmethod(fn: ast.FunctionDef) -> bool:
    return any(_deco_name(d) == "classmethod" for d in fn.decorator_list)


def is_property(fn: ast.FunctionDef) -> bool:
    return any(_deco_name(d) == "property" for d in fn.decorator_list)


def strip_docstring(body: List[ast.stmt]) -> List[ast.stmt]:
    if body and isinstance(body[0], ast.Expr) and isinstance(body[0].value, ast.Constant) \
            and isinstance(body[0].value.value, str):
        return body[1:]
    return body
