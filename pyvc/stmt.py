"""Statement execution."""
from __future__ import annotations

import ast

import z3
from .slicing import fold as _fold

from .source import builtin_exc_subclass, BUILTIN_EXC
from .values import (V, NONE, NoneV, Opt, StrV, EnumV, Rec, Ref, TupleV, BytesV, ClassV, FuncV, BoundV,
                     BuiltinV, ModuleV, ExcV, Opaque, RaiseV, Obj, Unsupported, is_term, is_bool)

FALL = ("fall",)
BREAK = ("break",)
CONTINUE = ("continue",)


class StmtMixin:
    def ex(self, stmts, st):
        """execute a statement list"""
        if not stmts:
            yield st, FALL
            return
        s, rest = stmts[0], stmts[1:]
        for s1, o in self.ex1(s, st):
            if o[0] == "fall":
                if rest:
                    yield from self.ex(rest, s1)
                else:
                    yield s1, FALL
            else:
                yield s1, o

    def ex1(self, s, st):
        self.npaths += 1
        if self.npaths > self.deadline_paths * 50:
            raise Unsupported("path budget exhausted")
        m = getattr(self, "ex_" + type(s).__name__, None)
        if m is None:
            raise Unsupported(f"statement {type(s).__name__} at line {s.lineno}")
        yield from m(s, st)

    def ex_Pass(self, s, st):
        yield st, FALL

    def ex_Global(self, s, st):
        raise Unsupported("global")

    def ex_Import(self, s, st):
        # a function-level `import m [as n]` binds a local name to the module
        from .values import ModuleV
        from .expr import EXTERNAL_MODULES
        for a in s.names:
            local = a.asname or a.name.split(".")[0]
            target = a.name if a.asname else a.name.split(".")[0]
            st = st.set_local(local, ModuleV(target, external=target.split(".")[0] in EXTERNAL_MODULES
                                             or not self.repo.has_module(target)))
        yield st, FALL

    def ex_ImportFrom(self, s, st):
        yield st, FALL

    def ex_Break(self, s, st):
        yield st, BREAK

    def ex_Continue(self, s, st):
        yield st, CONTINUE

    def ex_Expr(self, s, st):
        if isinstance(s.value, ast.Constant):
            yield st, FALL
            return
        for s1, v in self.ev(s.value, st):
            yield (s1, ("raise", v.exc)) if isinstance(v, RaiseV) else (s1, FALL)

    def ex_Return(self, s, st):
        if s.value is None:
            yield st, ("ret", NONE)
            return
        for s1, v in self.ev(s.value, st):
            yield (s1, ("raise", v.exc)) if isinstance(v, RaiseV) else (s1, ("ret", v))

    def ex_Raise(self, s, st):
        if s.exc is None:
            cur = st.loc.get("$handling")
            if cur is None:
                raise Unsupported("bare raise outside handler")
            yield st, ("raise", cur)
            return
        for s1, v in self.ev(s.exc, st):
            if isinstance(v, RaiseV):
                yield s1, ("raise", v.exc)
            elif isinstance(v, ExcV):
                yield s1, ("raise", v)
            elif isinstance(v, ClassV) and self.repo.is_exception_class(v.cls):
                yield s1, ("raise", ExcV(v.cls.name, v.cls, ()))
            elif isinstance(v, BuiltinV) and v.name.startswith("exc:"):
                yield s1, ("raise", ExcV(v.name[4:], None, ()))
            else:
                raise Unsupported(f"raise of {v!r}")

    def ex_Assert(self, s, st):
        for s1, c in self.ev(s.test, st):
            if isinstance(c, RaiseV):
                yield s1, ("raise", c.exc)
                continue
            t = self.truth(s1, c)
            if self.feasible(s1.pc, z3.Not(t)):
                yield s1.assume(z3.Not(t)), ("raise", self.exc("AssertionError"))
            if self.feasible(s1.pc, t):
                yield s1.assume(t), FALL

    def ex_Delete(self, s, st):
        if len(s.targets) != 1:
            raise Unsupported("multi-delete")
        t = s.targets[0]
        if isinstance(t, ast.Name):
            yield st.del_local(t.id), FALL
        elif isinstance(t, ast.Subscript):
            for s1, vs in self.ev_many([t.value, t.slice], st):
                if isinstance(vs, RaiseV):
                    yield s1, ("raise", vs.exc)
                    continue
                for s2, r in self.del_item(s1, vs[0], vs[1]):
                    yield (s2, ("raise", r.exc)) if isinstance(r, RaiseV) else (s2, FALL)
        else:
            raise Unsupported("delete target")

    def split_symbolic_int_key(self, st, ob, key):
        """a symbolic int key against a dict whose keys are integer constants: one alternative per key it may equal
        (yielding that constant) and one for 'none of them' (yielding None)"""
        ks = [e[0] for e in ob.items]
        if not (self.is_int(key) and self.pyconst(key) is None and ks is not None
                and all(self.is_int(k) and self.pyconst(k) is not None for k in ks)
                and not (ob.extra and (ob.extra.get("open") or ob.extra.get("symbolic")))):
            yield st, key
            return
        k = self.to_int(key)
        none = z3.And(*[k != self.to_int(c) for c in ks]) if ks else z3.BoolVal(True)
        for c in ks:
            cond = k == self.to_int(c)
            if self.feasible(st.pc, cond):
                yield st.assume(cond), c
        if self.feasible(st.pc, none):
            yield st.assume(none), None

    def del_item(self, st, o, key):
        if isinstance(o, Ref) and st.obj(o).kind == "dict" and self.is_int(key) and self.pyconst(key) is None:
            for s1, k1 in self.split_symbolic_int_key(st, st.obj(o), key):
                if k1 is None:
                    yield s1, RaiseV(self.exc("KeyError", key))
                elif k1 is key:
                    raise Unsupported("deletion by a symbolic dict key")
                else:
                    yield from self.del_item(s1, o, k1)
            return
        if isinstance(o, Ref) and st.obj(o).kind == "dict":
            ob = st.obj(o)
            kc = self.key_const(key)
            for i, e in enumerate(ob.items):
                if self.key_const(e[0]) == kc:
                    p = e[1]
                    if self.feasible(st.pc, z3.Not(p)):
                        yield st.assume(z3.Not(p)), RaiseV(self.exc("KeyError", key))
                    if self.feasible(st.pc, p):
                        nb = ob.copy()
                        nb.items[i] = [e[0], z3.BoolVal(False), e[2]]
                        yield st.assume(p).replace_obj(o, nb), NONE
                    return
            yield st, RaiseV(self.exc("KeyError", key))
            return
        if isinstance(o, Opaque):
            yield from self.opaque_call(st, o, "__delitem__", [key], {})
            return
        raise Unsupported("del item")

    # ------------------------------------------------------------------ assignment
    def ex_Assign(self, s, st):
        for s1, v in self.ev(s.value, st):
            if isinstance(v, RaiseV):
                yield s1, ("raise", v.exc)
                continue
            yield from self.assign_all(s1, s.targets, v)

    def assign_all(self, st, targets, v):
        if not targets:
            yield st, FALL
            return
        for s1, r in self.assign(st, targets[0], v):
            if isinstance(r, RaiseV):
                yield s1, ("raise", r.exc)
            else:
                yield from self.assign_all(s1, targets[1:], v)

    def ex_AnnAssign(self, s, st):
        if s.value is None:
            yield st, FALL
            return
        for s1, v in self.ev(s.value, st):
            if isinstance(v, RaiseV):
                yield s1, ("raise", v.exc)
                continue
            for s2, r in self.assign(s1, s.target, v):
                yield (s2, ("raise", r.exc)) if isinstance(r, RaiseV) else (s2, FALL)

    def ex_AugAssign(self, s, st):
        load = ast.copy_location(_as_load(s.target), s.target)
        # evaluate target object once for attribute / subscript targets
        for s1, cur in self.ev(load, st):
            if isinstance(cur, RaiseV):
                yield s1, ("raise", cur.exc)
                continue
            for s2, rhs in self.ev(s.value, s1):
                if isinstance(rhs, RaiseV):
                    yield s2, ("raise", rhs.exc)
                    continue
                if isinstance(cur, Ref) and isinstance(s.op, ast.Add) and s2.obj(cur).kind == "list":
                    for s3, r in self.call_builtin_method(s2, cur, "extend", [rhs], {}):
                        yield (s3, ("raise", r.exc)) if isinstance(r, RaiseV) else (s3, FALL)
                    continue
                for s3, v in self.binop(s2, type(s.op), cur, rhs):
                    if isinstance(v, RaiseV):
                        yield s3, ("raise", v.exc)
                        continue
                    for s4, r in self.assign(s3, s.target, v):
                        yield (s4, ("raise", r.exc)) if isinstance(r, RaiseV) else (s4, FALL)

    def assign(self, st, target, v):
        """yields (state, None | RaiseV)"""
        if isinstance(target, ast.Name):
            yield st.set_local(target.id, v), None
        elif isinstance(target, (ast.Tuple, ast.List)):
            items = self.iter_items(st, v)
            if items is None:
                raise Unsupported("unpacking a non-meta iterable")
            if len(items) != len(target.elts):
                yield st, RaiseV(self.exc("ValueError", "unpack"))
                return
            states = [st]
            for t, x in zip(target.elts, items):
                nxt = []
                for s0 in states:
                    for s1, r in self.assign(s0, t, x):
                        if isinstance(r, RaiseV):
                            yield s1, r
                        else:
                            nxt.append(s1)
                states = nxt
            for s0 in states:
                yield s0, None
        elif isinstance(target, ast.Attribute):
            for s1, o in self.ev(target.value, st):
                if isinstance(o, RaiseV):
                    yield s1, o
                    continue
                yield from self.setattr(s1, o, target.attr, v)
        elif isinstance(target, ast.Subscript):
            if isinstance(target.slice, ast.Slice):
                raise Unsupported("slice assignment")
            for s1, vs in self.ev_many([target.value, target.slice], st):
                if isinstance(vs, RaiseV):
                    yield s1, vs
                    continue
                yield from self.setitem(s1, vs[0], vs[1], v)
        else:
            raise Unsupported("assignment target")

    def setattr(self, st, o, name, v):
        if isinstance(o, Opt):
            for s1, x in self.unwrap(st, o, "attribute assignment"):
                if isinstance(x, RaiseV):
                    yield s1, RaiseV(self.exc("AttributeError", name))
                else:
                    yield from self.setattr(s1, x, name, v)
            return
        if isinstance(o, Ref):
            ob = st.obj(o)
            if ob.kind != "obj":
                raise Unsupported("attribute assignment on container")
            if ob.cls is not None and ob.cls.frozen:
                yield st, RaiseV(self.exc("FrozenInstanceError"))
                return
            self.check_guard(st, o, ob, name, "write")
            yield st.write_field(o, name, v), None
            return
        if isinstance(o, Rec):
            if o.cls.frozen:
                yield st, RaiseV(self.exc("FrozenInstanceError"))
                return
            raise Unsupported(f"attribute assignment on by-value record {o.cls.name}")
        if isinstance(o, NoneV):
            yield st, RaiseV(self.exc("AttributeError", name))
            return
        if isinstance(o, Opaque):
            yield from ((s, None if not isinstance(r, RaiseV) else r)
                        for s, r in self.opaque_call(st, o, "__setattr__", [StrV(name), v], {}))
            return
        raise Unsupported(f"attribute assignment on {type(o).__name__}")

    def setitem(self, st, o, key, v):
        if isinstance(o, Ref):
            ob = st.obj(o)
            if ob.kind == "dict":
                if ob.extra and ob.extra.get("symbolic"):
                    yield from self.sym_container_setitem(st, o, key, v)
                    return
                kc = self.key_const(key)
                nb = ob.copy()
                for i, e in enumerate(nb.items):
                    if self.key_const(e[0]) == kc:
                        nb.items[i] = [e[0], z3.BoolVal(True), v]
                        break
                else:
                    nb.items.append([key, z3.BoolVal(True), v])
                yield st.replace_obj(o, nb), None
                return
            if ob.kind == "list" and not ob.extra:
                c = self.pyconst(key)
                if c is None:
                    raise Unsupported("symbolic list index assignment")
                if not (-len(ob.items) <= c < len(ob.items)):
                    yield st, RaiseV(self.exc("IndexError", "list assignment index out of range"))
                    return
                nb = ob.copy()
                nb.items[c] = v
                yield st.replace_obj(o, nb), None
                return
            if ob.cls is not None and self.repo.find_method(ob.cls, "__setitem__"):
                for s1, r in self.call_method(st, o, "__setitem__", [key, v], {}):
                    yield s1, (r if isinstance(r, RaiseV) else None)
                return
        if isinstance(o, Opaque):
            for s1, r in self.opaque_call(st, o, "__setitem__", [key, v], {}):
                yield s1, (r if isinstance(r, RaiseV) else None)
            return
        raise Unsupported(f"item assignment on {type(o).__name__}")

    # ------------------------------------------------------------------ control flow
    def ex_If(self, s, st):
        for s1, c in self.ev(s.test, st):
            if isinstance(c, RaiseV):
                yield s1, ("raise", c.exc)
                continue
            t = self.truth(s1, c)
            ft = self.feasible(s1.pc, t)
            ff = self.feasible(s1.pc, z3.Not(t))
            outs_t = list(self.ex(s.body, s1.assume(t))) if ft else []
            outs_f = list(self.ex(s.orelse, s1.assume(z3.Not(t)))) if ff else []
            if len(outs_t) == 1 and len(outs_f) == 1 and outs_t[0][1][0] == outs_f[0][1][0] \
                    and outs_t[0][1][0] in ("fall", "ret"):
                m = self.merge_states(s1, t, outs_t[0][0], outs_f[0][0])
                if m is not None:
                    if outs_t[0][1][0] == "fall":
                        yield m, FALL
                        continue
                    try:
                        yield m, ("ret", self.merge(s1, t, outs_t[0][1][1], outs_f[0][1][1]))
                        continue
                    except Unsupported:
                        pass
            yield from outs_t
            yield from outs_f

    def iter_items(self, st, v):
        """python list of element values of a meta-level iterable, or None"""
        if isinstance(v, TupleV):
            return list(v.items)
        if isinstance(v, Ref):
            o = st.obj(v)
            if o.kind in ("list", "set", "deque"):
                if o.extra and o.extra.get("symbolic"):
                    return None
                return list(o.items)
            if o.kind == "dict":
                if o.extra and o.extra.get("symbolic"):
                    return None
                out = []
                for e in o.items:
                    p = _fold(e[1])
                    if z3.is_false(p):
                        continue
                    if not z3.is_true(p):
                        return None
                    out.append(e[0])
                return out
            return None
        if isinstance(v, MetaIter):
            return list(v.items)
        if isinstance(v, BytesV):
            n = self.bytes_const_len(v)
            if n is None:
                return None
            return [self.bytes_index(st, v, i) for i in range(n)]
        if isinstance(v, StrV):
            return [StrV(ch) for ch in v.s]
        return None

    def ex_For(self, s, st):
        for s1, it in self.ev(s.iter, st):
            if isinstance(it, RaiseV):
                yield s1, ("raise", it.exc)
                continue
            spec = self.loop_spec_for(s1, s)
            if spec is not None:
                yield from self.loop_with_spec(s1, s, it, spec)
                continue
            if isinstance(it, Ref) and s1.obj(it).kind == "list" and not (s1.obj(it).extra and s1.obj(it).extra.get("symbolic")):
                # a list iterator indexes the LIVE list: elements removed or added by the body shift what comes next
                yield from self.unroll_live(s, s1, it, 0)
                continue
            items = self.iter_items(s1, it)
            if items is None:
                if isinstance(it, DictIter):
                    yield from self.for_dict_entries(s, s1, it)
                    continue
                if isinstance(it, (NoneV, Opt)) or is_term(it):
                    yield s1, ("raise", self.exc("TypeError", "not iterable"))
                    continue
                raise Unsupported(f"for loop over non-meta iterable at line {s.lineno} (needs a loop spec)")
            yield from self.unroll(s, s1, items, 0)

    def for_dict_entries(self, s, st, it):
        """iterate over a schema dict whose entries may be conditionally present"""
        entries = it.entries

        def go(st, k):
            if k == len(entries):
                if s.orelse:
                    yield from self.ex(s.orelse, st)
                else:
                    yield st, FALL
                return
            p, x = entries[k]
            if self.feasible(st.pc, z3.Not(p)):
                yield from go(st.assume(z3.Not(p)), k + 1)
            if self.feasible(st.pc, p):
                for s2, r in self.assign(st.assume(p), s.target, x):
                    if isinstance(r, RaiseV):
                        yield s2, ("raise", r.exc)
                        continue
                    for s3, o in self.ex(s.body, s2):
                        if o[0] in ("fall", "continue"):
                            yield from go(s3, k + 1)
                        elif o[0] == "break":
                            yield s3, FALL
                        else:
                            yield s3, o
        yield from go(st, 0)

    def unroll_live(self, s, st, ref, k):
        items = st.obj(ref).items
        if k >= len(items):
            if s.orelse:
                yield from self.ex(s.orelse, st)
            else:
                yield st, FALL
            return
        if k > 4096:
            raise Unsupported("for loop over a list that keeps growing")
        for s2, r in self.assign(st, s.target, items[k]):
            if isinstance(r, RaiseV):
                yield s2, ("raise", r.exc)
                continue
            for s3, o in self.ex(s.body, s2):
                if o[0] in ("fall", "continue"):
                    yield from self.unroll_live(s, s3, ref, k + 1)
                elif o[0] == "break":
                    yield s3, FALL
                else:
                    yield s3, o

    def unroll(self, s, st, items, k):
        if k == len(items):
            if s.orelse:
                yield from self.ex(s.orelse, st)
            else:
                yield st, FALL
            return
        for s2, r in self.assign(st, s.target, items[k]):
            if isinstance(r, RaiseV):
                yield s2, ("raise", r.exc)
                continue
            for s3, o in self.ex(s.body, s2):
                if o[0] in ("fall", "continue"):
                    yield from self.unroll(s, s3, items, k + 1)
                elif o[0] == "break":
                    yield s3, FALL
                else:
                    yield s3, o

    def ex_While(self, s, st):
        spec = self.loop_spec_for(st, s)
        if spec is not None:
            yield from self.loop_with_spec(st, s, None, spec)
            return
        # bounded unrolling is never silently applied: a while loop needs a spec, unless its condition is
        # decided concretely on every iteration (constant-foldable loops)
        yield from self.while_concrete(s, st, 0)

    def while_concrete(self, s, st, n):
        if n > 64:
            raise Unsupported(f"while loop at line {s.lineno} needs a loop spec")
        for s1, c in self.ev(s.test, st):
            if isinstance(c, RaiseV):
                yield s1, ("raise", c.exc)
                continue
            t = self.truth(s1, c)
            ft = self.feasible(s1.pc, t)
            ff = self.feasible(s1.pc, z3.Not(t))
            if ft and ff:
                raise Unsupported(f"while loop at line {s.lineno} with symbolic condition needs a loop spec")
            if ff:
                if s.orelse:
                    yield from self.ex(s.orelse, s1)
                else:
                    yield s1, FALL
                continue
            for s2, o in self.ex(s.body, s1):
                if o[0] in ("fall", "continue"):
                    yield from self.while_concrete(s, s2, n + 1)
                elif o[0] == "break":
                    yield s2, FALL
                else:
                    yield s2, o

    # ------------------------------------------------------------------ try / with
    def exc_matches(self, st, exc: ExcV, handler_type) -> bool:
        """does exception value ``exc`` match the evaluated handler type value?"""
        if handler_type is None:
            return True
        if isinstance(handler_type, TupleV):
            return any(self.exc_matches(st, exc, h) for h in handler_type.items)
        if isinstance(handler_type, BuiltinV) and handler_type.name.startswith("exc:"):
            hn = handler_type.name[4:]
            if exc.cls is not None:
                return self.repo.is_subclass(exc.cls, hn)
            return builtin_exc_subclass(exc.name, hn) if exc.name in BUILTIN_EXC else hn in ("Exception",
                                                                                             "BaseException")
        if isinstance(handler_type, ClassV):
            if exc.cls is not None:
                return self.repo.is_subclass(exc.cls, handler_type.cls.name)
            return False
        if isinstance(handler_type, BuiltinV) and handler_type.name.startswith("ext:"):
            # external exception classes (socket.timeout, asn1tools.DecodeError, ...)
            hn = handler_type.name[4:]
            return exc.name == hn or exc.name == hn.split(".")[-1]
        raise Unsupported(f"except clause type {handler_type!r}")

    def ex_Try(self, s, st):
        def after_finally(s1, o):
            if not s.finalbody:
                yield s1, o
                return
            for s2, o2 in self.ex(s.finalbody, s1):
                if o2[0] == "fall":
                    yield s2, o
                else:
                    yield s2, o2

        for s1, o in self.ex(s.body, st):
            if o[0] == "raise":
                handled = False
                for h in s.handlers:
                    if h.type is None:
                        ht = None
                    else:
                        hts = list(self.ev(h.type, s1))
                        if len(hts) != 1 or isinstance(hts[0][1], RaiseV):
                            raise Unsupported("except type expression")
                        ht = hts[0][1]
                    if self.exc_matches(s1, o[1], ht):
                        handled = True
                        s2 = s1
                        if h.name:
                            s2 = s2.set_local(h.name, o[1])
                        prev = s2.loc.get("$handling")
                        s2 = s2.set_local("$handling", o[1])
                        for s3, o3 in self.ex(h.body, s2):
                            s3 = s3.set_local("$handling", prev) if prev is not None else s3.del_local("$handling")
                            yield from after_finally(s3, o3)
                        break
                if not handled:
                    yield from after_finally(s1, o)
            elif o[0] == "fall" and s.orelse:
                for s2, o2 in self.ex(s.orelse, s1):
                    yield from after_finally(s2, o2)
            else:
                yield from after_finally(s1, o)

    def ex_With(self, s, st):
        if len(s.items) != 1:
            raise Unsupported("multi-item with")
        item = s.items[0]
        for s1, cm in self.ev(item.context_expr, st):
            if isinstance(cm, RaiseV):
                yield s1, ("raise", cm.exc)
                continue
            if isinstance(cm, Opaque) and cm.typ in ("lock", "rlock"):
                if item.optional_vars is not None:
                    raise Unsupported("with lock as x")
                s2 = self.lock_acquire(s1, cm)
                for s3, o in self.ex(s.body, s2):
                    yield self.lock_release(s3, cm), o
                continue
            raise Unsupported(f"with statement over {cm!r}")

    def lock_acquire(self, st, lock):
        return st.push_lock(lock)

    def lock_release(self, st, lock):
        return st.pop_lock()

    def ex_FunctionDef(self, s, st):
        yield st.set_local(s.name, FuncV(st.loc.get("$module"), s, None, st.loc, None)), FALL

    def ex_ClassDef(self, s, st):
        raise Unsupported("nested class")


class MetaIter(V):
    """materialised iterator (range, enumerate, zip, dict views)"""

    def __init__(self, items):
        self.items = list(items)


class DictIter(V):
    """dict view whose entries are conditionally present: entries = [(present, element)]"""

    def __init__(self, entries):
        self.entries = list(entries)


def _as_load(t):
    if isinstance(t, ast.Name):
        return ast.Name(id=t.id, ctx=ast.Load())
    if isinstance(t, ast.Attribute):
        return ast.Attribute(value=t.value, attr=t.attr, ctx=ast.Load())
    if isinstance(t, ast.Subscript):
        return ast.Subscript(value=t.value, slice=t.slice, ctx=ast.Load())
    raise Unsupported("augmented assignment target")
