"""Loops with an inductive invariant given in the sidecar (DESIGN §1.6 rule 2).

loop spec (dict):  invariant: [spec texts]   variant: spec text (int, >= 0, strictly decreasing; optional)
                   modifies:  [heap paths]   (locals assigned in the body are havocked automatically)
                   counters:  [ghost counter names havocked]
                   elem: shape of the loop variable for `for` loops over an opaque sequence (arbitrary element)
Keyed by (function qual, "while#k" | "for#k") with k the ordinal of the loop among loops of that kind in the function.
"""
from __future__ import annotations

import ast

import z3

from .shapes import Maker
from .values import (NONE, Opt, Ref, TupleV, Opaque, RaiseV, Obj, Unsupported, is_term, is_bool, is_real)

FALL = ("fall",)


def assigned_names(stmts):
    out = set()
    for n in ast.walk(ast.Module(body=list(stmts), type_ignores=[])):
        if isinstance(n, (ast.Assign, ast.AugAssign, ast.AnnAssign)):
            targets = n.targets if isinstance(n, ast.Assign) else [n.target]
            for t in targets:
                for x in ast.walk(t):
                    if isinstance(x, ast.Name) and isinstance(x.ctx, (ast.Store, ast.Del)):
                        out.add(x.id)
        elif isinstance(n, (ast.For,)):
            for x in ast.walk(n.target):
                if isinstance(x, ast.Name):
                    out.add(x.id)
    return out


class LoopMixin:
    def loop_spec_for(self, st, s):
        q = st.loc.get("$qual")
        fn = self._loop_fn_cache(q)
        if fn is None:
            return None
        kind = "while" if isinstance(s, ast.While) else "for"
        k = 0
        for n in ast.walk(fn):
            if isinstance(n, ast.While if kind == "while" else ast.For):
                if n is s or (n.lineno == s.lineno and n.col_offset == s.col_offset):
                    return self.loop_specs.get((q, f"{kind}#{k}"))
                k += 1
        return None

    def _loop_fn_cache(self, q):
        if q is None or ":" not in q or q.endswith("<module>") or q.startswith("<"):
            return None
        cache = self.__dict__.setdefault("_fn_nodes", {})
        if q not in cache:
            try:
                cache[q] = self.repo.function(q)[2]
            except Exception:
                cache[q] = None
        return cache[q]

    def fresh_like(self, st, v, base):
        """an arbitrary value of the same kind as v"""
        if is_term(v):
            return st, z3.Const(self.fresh(base), v.sort())
        if isinstance(v, Opt):
            st, inner = self.fresh_like(st, v.val, base)
            return st, Opt(z3.Bool(self.fresh(base + ".isnone")), inner)
        raise Unsupported(f"loop havoc of a {type(v).__name__} local ({base})")

    def loop_havoc(self, st, s, spec):
        names = assigned_names(s.body)
        for n in sorted(names):
            if n in st.loc and not n.startswith("$"):
                st, v = self.fresh_like(st, st.loc[n], "loop." + n)
                st = st.set_local(n, v)
        for path in spec.get("modifies", []):
            parts = path.split(".")
            cur = st.loc.get(parts[0])
            for p in parts[1:-1]:
                cur = st.obj(cur).f[p]
            old = st.obj(cur).f[parts[-1]]
            st, v = self.fresh_like(st, old, "loop." + path)
            st = st.write_field(cur, parts[-1], v)
        for cname in spec.get("counters", []):
            g = dict(st.ghost)
            cur = g.get("#" + cname)
            real = cname in spec.get("real_counters", []) or (cur is not None and is_real(cur[0]))
            g["#" + cname] = (z3.Real(self.fresh("loop.count." + cname)) if real
                              else self.T.const(self.fresh("loop.count." + cname)),)
            st = st._clone(ghost=g)
        return st

    def loop_inv(self, st, spec, polarity):
        env = dict(st.loc)
        if "$old" not in env and getattr(self, "entry_state", None) is not None and st.loc.get("$depth", 0) == 0:
            env["$old"] = self.entry_state      # old(...) in an invariant of the verified function: its entry state
        return [(text, self.spec_bool(st, text, env, polarity, env.get("$specmodule") or self.default_spec_module))
                for text in spec.get("invariant", [])]

    def loop_with_spec(self, st, s, it, spec):
        q = st.loc.get("$qual")
        tag = f"{q}/loop@{s.lineno}"
        # 1. establishment
        for text, g in self.loop_inv(st, spec, "prove"):
            self.add_obligation(st, f"loop-invariant-established[{text[:40]}]", g, kind="loop")
        # 2. arbitrary iteration
        h = self.loop_havoc(st, s, spec)
        for text, g in self.loop_inv(h, spec, "assume"):
            h = h.assume(g)
        variant0 = None
        if spec.get("variant"):
            variant0 = self.spec_eval(h, spec["variant"], dict(h.loc), "assume", self.default_spec_module)
        if isinstance(s, ast.While):
            conds = list(self.ev(s.test, h))
        else:
            conds = [(h, z3.Bool(self.fresh("more_elements")))]
        for s1, c in conds:
            if isinstance(c, RaiseV):
                yield s1, ("raise", c.exc)
                continue
            t = self.truth(s1, c)
            # 2a. one more iteration: body, then invariant and variant
            if self.feasible(s1.pc, t):
                s2 = s1.assume(t)
                if isinstance(s, ast.For):
                    s2, elem = Maker(self).make(s2, spec["elem"], self.fresh("loop.elem"))
                    outs = []
                    for s3, r in self.assign(s2, s.target, elem):
                        if isinstance(r, RaiseV):
                            yield s3, ("raise", r.exc)
                        else:
                            outs.extend(self.ex(s.body, s3))
                else:
                    outs = list(self.ex(s.body, s2))
                for s3, o in outs:
                    if o[0] in ("fall", "continue"):
                        for text, g in self.loop_inv(s3, spec, "prove"):
                            self.add_obligation(s3, f"loop-invariant-preserved[{text[:40]}]", g, kind="loop")
                        if variant0 is not None:
                            v1 = self.spec_eval(s3, spec["variant"], dict(s3.loc), "prove", self.default_spec_module)
                            self.add_obligation(s3, "loop-variant-decreases",
                                                z3.And(v1 < variant0, variant0 >= (0 if not is_real(variant0) else 0)), kind="loop")
                    elif o[0] == "break":
                        yield s3, FALL          # leaves the loop without the exit condition
                    else:
                        yield s3, o
            # 2b. exit: invariant and negated condition
            if self.feasible(s1.pc, z3.Not(t)):
                s4 = s1.assume(z3.Not(t))
                if s.orelse:
                    yield from self.ex(s.orelse, s4)
                else:
                    yield s4, FALL
