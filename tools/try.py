#!/usr/bin/env python3-vt
import sys, json, importlib, time
sys.path.insert(0, '/verif')
from pyvc.source import Repo
from pyvc.contracts import REGISTRY
from pyvc.verify import FunctionVerifier
mod, pat = sys.argv[1], (sys.argv[2] if len(sys.argv) > 2 else '')
import glob, os
for _p in sorted(glob.glob('/verif/contracts/c_*.py')):
    importlib.import_module('contracts.' + os.path.basename(_p)[:-3])
wanted = set(q for q, c in REGISTRY.items() if True)
import contracts
modobj = importlib.import_module('contracts.' + mod)
repo = Repo(os.environ.get('PYVC_SRC', '/repo/src'), extra_roots=['/verif/contracts'])
for q, c in REGISTRY.items():
    if pat and pat not in q: continue
    if getattr(c, '_module', None) != mod or c.assumed: continue
    t = time.time()
    fv = FunctionVerifier(repo, c, REGISTRY, setup=c.engine_setup, spec_modules=sorted(os.path.basename(x)[:-3] for x in glob.glob("/verif/contracts/spec_*.py")))
    try:
        res = fv.run()
    except Exception as e:
        import traceback; traceback.print_exc(); print('ERROR', q, e); continue
    print(f'== {q.split(":")[1]}: paths={fv.paths} {time.time()-t:.2f}s info={ {k:v for k,v in fv.info.items() if k!="assumptions"} }')
    for r in res:
        if r.status != 'proved' or '-v' in sys.argv:
            print('  ', r.status.upper(), r.name, r.path, r.backend, r.time, json.dumps(r.model) if r.model else '', r.detail)
    print('  proved', sum(r.status == 'proved' for r in res), 'of', len(res))
