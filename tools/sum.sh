#!/bin/sh
# summarise try.py output: one line per (status, obligation label), counts
grep "REFUTED\|UNKNOWN\|proved\|ERROR\|^==" | sed 's/@case[0-9]*//; s/ path[0-9]*.*//; s/info=.*//' | cut -c1-220 | sort | uniq -c | sort -rn | head -${1:-40}
