#!/usr/bin/env python3
"""apply each seeded change to /repo, run the check(s) of the property it breaks, undo; record what caught it.
usage: run_seeded.py [ids...]   (default: all under /verif/seeded whose property is claimed in MANIFEST.json)"""
import json, os, subprocess, sys, glob
V = os.path.dirname(os.path.dirname(os.path.abspath(__file__)))
man = json.load(open(os.path.join(V, "MANIFEST.json")))
claimed = {c["property_id"] for c in man["checks"]}
ids = sys.argv[1:] or sorted(os.path.basename(p) for p in glob.glob(os.path.join(V, "seeded", "C*_*")))
out = {}
assert subprocess.run(["git", "-C", "/repo", "status", "--porcelain", "--untracked-files=no"], capture_output=True, text=True).stdout.strip() == "", "/repo not clean"
for sid in ids:
    d = os.path.join(V, "seeded", sid)
    prop = json.load(open(os.path.join(d, "meta.json")))["property"]
    extra = os.environ.get("ALSO", "").split(",") if os.environ.get("ALSO") else []
    props = [prop] + [p for p in extra if p]
    if prop not in claimed and not os.environ.get("FORCE"):
        print(sid, "property", prop, "not claimed - skipped"); continue
    r = subprocess.run(["git", "-C", "/repo", "apply", os.path.join(d, "patch.diff")])
    if r.returncode:
        print(sid, "patch does not apply"); continue
    import shutil
    saved = {p: open(os.path.join(V, "evidence", p + ".json")).read() for p in props if os.path.exists(os.path.join(V, "evidence", p + ".json"))}
    try:
        res = {}
        for p in props:
            pr = subprocess.run([os.path.join(V, "check"), p, "--tier", "quick"], capture_output=True, text=True, cwd=V)
            failed = [l.split("failed obligation:")[1].strip() for l in pr.stdout.splitlines() if "failed obligation:" in l]
            res[p] = {"exit": pr.returncode, "failed_obligations": failed,
                      "violation_lines": [l for l in pr.stdout.splitlines() if l.startswith("VIOLATION")][:6],
                      "other": [l for l in pr.stdout.splitlines() if l.startswith(("CHECKER-ERROR", "UNDECIDED"))][:6]}
        out[sid] = res
        try:        # record as we go: a batch that is interrupted keeps what it has done
            _prev = json.load(open(os.path.join(V, "seeded", "last_run.json")))
        except Exception:
            _prev = {}
        _prev[sid] = res
        json.dump(_prev, open(os.path.join(V, "seeded", "last_run.json"), "w"), indent=1)
        print(sid, {p: (v["exit"], v["failed_obligations"][:3], v["other"][:2]) for p, v in res.items()}, flush=True)
    finally:
        subprocess.run(["git", "-C", "/repo", "checkout", "--", "."])
        for p, txt in saved.items():
            open(os.path.join(V, "evidence", p + ".json"), "w").write(txt)
# merge into the record of the last runs (one entry per seeded change: its most recent run)
lp = os.path.join(V, "seeded", "last_run.json")
try:
    prev = json.load(open(lp))
except Exception:
    prev = {}
prev.update(out)
json.dump(prev, open(lp, "w"), indent=1)
