#!/bin/bash
# confirm seeded changes: patch applies, suite passes with it, demo fails with it and passes without it
# usage: confirm_seeded.sh <id>...   (results appended to /verif/seeded/<id>/confirm.json)
for id in "$@"; do
  d=/verif/seeded/$id
  wt=/tmp/confirm_$id
  git -C /repo worktree remove --force $wt 2>/dev/null
  git -C /repo worktree add -q --detach $wt HEAD || continue
  cp $d/demo.py $wt/_demo.py
  (cd $wt && PYTHONPATH=$wt/src timeout 600 /venv/bin/python _demo.py >/tmp/confirm_$id.clean.log 2>&1); clean=$?
  if git -C $wt apply $d/patch.diff; then applied=true; else applied=false; fi
  (cd $wt && PYTHONPATH=$wt/src timeout 600 /venv/bin/python _demo.py >/tmp/confirm_$id.mut.log 2>&1); mut=$?
  suite=$(cd $wt && PYTHONPATH=$wt/src timeout 1200 /venv/bin/python -m pytest -q -p no:cacheprovider --ignore=tests/flexstack/facilities/vru_basic_service 2>&1 | tail -1)
  echo "{\"id\": \"$id\", \"applies\": $applied, \"demo_exit_clean\": $clean, \"demo_exit_mutated\": $mut, \"suite_with_patch\": \"$suite\", \"commit\": \"$(git -C /repo rev-parse --short HEAD)\"}" > $d/confirm.json
  cat $d/confirm.json
  git -C /repo worktree remove --force $wt
  rm -f /tmp/confirm_$id.*.log
done
