CLAIMED = {
 "C19": {"text": "Reactive DCC step/band/Annex-A-row clauses, adaptive DCC clause 5.4 formula and bounds, and gate-keeper B.1/B.2 clauses are postconditions on the real DccReactive/DccAdaptive/GateKeeper methods; convergence within four evaluations, >= 25 ms spacing and <= 1 s closure are lemmas over those contracts.",
         "note": "floats treated as reals; Annex A table rows transcribed in contracts/spec_dcc.py are trusted; KF-C19-1 (1 ns tolerance in GateKeeper.is_open, pinned by a repository test) excluded as a region."},
 "C20": {"text": "Every clause of the lifetime quantisation (never exceeds, largest representable, non-zero from 50 ms, 6-bit multiplier) is a postcondition on the real LT.set_value_in_millis, discharged for all integers by z3; hop-limit clauses are postconditions on the source operations.",
         "note": "floats treated as reals in value/unit divisions; z3/cvc5 sound; pyvc's encoding of Python semantics (DESIGN §1.3). Known findings KF-C20-1/2 (>= 1 000 000 ms, pinned by a repository test) are excluded as regions."},
}
_PENDING = "contracts for this property are not built yet in this round (engine pyvc exists; see DESIGN.md §5 for the planned contracts)"
NOT_APPLICABLE = {p: _PENDING for p in ["C01","C02","C03","C04","C05","C06","C07","C08","C09","C10","C11","C12","C13","C14","C15","C16","C17","C18"]}
