#!/bin/bash
# re-run every claimed check on the clean tree so that the committed evidence files are those of the unchanged tree
cd /verif
test -z "$(git -C /repo status --porcelain --untracked-files=no)" || { echo "/repo not clean"; exit 1; }
for p in $(python3 -c "import json;print(' '.join(c['property_id'] for c in json.load(open('MANIFEST.json'))['checks']))"); do
  ./check $p --tier quick --write-baseline 2>&1 | tail -1
done
