#!/usr/bin/env python3
"""copy the outcome of tools/run_seeded.py (seeded/last_run.json) and of tools/confirm_seeded.sh into each seeded/<id>/meta.json"""
import json, os, glob
V = os.path.dirname(os.path.dirname(os.path.abspath(__file__)))
last = json.load(open(os.path.join(V, "seeded", "last_run.json")))
for d in sorted(glob.glob(os.path.join(V, "seeded", "C*_*"))):
    sid = os.path.basename(d)
    mp = os.path.join(d, "meta.json")
    m = json.load(open(mp))
    if os.path.exists(os.path.join(d, "confirm.json")):
        m["confirmed_natively"] = json.load(open(os.path.join(d, "confirm.json")))
    if sid in last:
        res = last[sid]
        prop = m["property"]
        r = res.get(prop, {})
        verdict = {0: "missed (check held)", 1: "detected", 2: "undecided", 3: "checker error"}.get(r.get("exit"), "?")
        if m.get("superseded") and r.get("exit") == 0:
            verdict = "held - correct: the change no longer violates the property on the final tree (see 'superseded')"
        m["what_i_ran"] = {"command": f"git -C /repo apply seeded/{sid}/patch.diff; ./check {prop} --tier quick; git -C /repo checkout -- .  (tools/run_seeded.py {sid})",
                           "exit": r.get("exit"), "verdict": verdict, "failed_obligations": r.get("failed_obligations", [])[:8],
                           "violation_lines": r.get("violation_lines", [])[:3], "other": r.get("other", [])[:3]}
    json.dump(m, open(mp, "w"), indent=1)
print("filled", len(last))
