#!/usr/bin/env python3
"""regenerate MANIFEST.json from tools/manifest_table.py"""
import json, os, sys
sys.path.insert(0, os.path.dirname(__file__))
from manifest_table import CLAIMED, NOT_APPLICABLE
V = os.path.dirname(os.path.dirname(os.path.abspath(__file__)))
base_cmd = json.load(open('/root/.vp/BASELINE.json'))['cmd']
m = {
 "version": 1,
 "setup_cmd": "python3-vt -m pyvc.selftest",
 "hooks": {"guard": "FLEXSTACK_VERIF", "enable": "n/a - no source hooks: contracts are sidecar files, the engine reads /repo/src text, replay imports /repo/src",
           "baseline_off_cmd": base_cmd.replace('--junitxml=<file>', '').strip(), "source_commits": [], "add_only": True},
 "engines": [{"name": "pyvc", "path": "pyvc/", "serves_properties": sorted(CLAIMED),
              "kind_free_text": "self-built weakest-precondition / symbolic-execution VC generator over the Python AST of the real /repo/src functions with sidecar contracts; obligations discharged by z3 5.1.0 (Python API), cvc5 1.0.3 for z3 'unknown'; counter-models replayed natively under /venv/bin/python"}],
 "checks": [], "not_applicable": [],
 "notes": "Contract-based deductive verification; see DESIGN.md §A. Exit codes of ./check: 0 held, 1 violation (replayed), 2 undecided, 3 checker error. "
          "The thorough tier discharges the same obligations with four times the solver budget and, for the contracts whose input shapes are "
          "enumerated (C09 certificate dictionaries, C13 filters), over a wider enumeration (more permission-group shapes; every pair of "
          "comparison operators in two-statement filters).",
}
for pid in sorted(CLAIMED):
    e = CLAIMED[pid]
    m["checks"].append({
        "property_id": pid,
        "quick_cmd": f"./check {pid} --tier quick",
        "thorough_cmd": f"./check {pid} --tier thorough",
        "evidence_file": f"evidence/{pid}.json",
        "replay_cmd_template": f"./check {pid} --replay {{path}}",
        "engine": "pyvc",
        "level_claimed": {"category": "proof", "text": e["text"], "design_ref": e.get("ref", "DESIGN.md §5 " + pid)},
        "level_note": e["note"],
        "technique": e.get("technique", "contract-based deductive verification: VCs generated from the real Python source against sidecar contracts, discharged by z3/cvc5"),
    })
for pid in sorted(NOT_APPLICABLE):
    m["not_applicable"].append({"property_id": pid, "reason": NOT_APPLICABLE[pid]})
json.dump(m, open(os.path.join(V, 'MANIFEST.json'), 'w'), indent=1)
print("claimed", sorted(CLAIMED), "n/a", sorted(NOT_APPLICABLE))
