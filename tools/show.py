#!/usr/bin/env python3
"""print a repo source file without docstrings (reading aid only)"""
import ast,sys
f=sys.argv[1]; names=set(sys.argv[2:])
t=ast.parse(open(f).read())
for n in ast.walk(t):
    if isinstance(n,(ast.FunctionDef,ast.ClassDef,ast.Module)) and n.body and isinstance(n.body[0],ast.Expr) and isinstance(n.body[0].value,ast.Constant) and isinstance(n.body[0].value.value,str):
        n.body=n.body[1:] or [ast.Pass()]
if names:
    for n in ast.walk(t):
        if isinstance(n,(ast.FunctionDef,ast.ClassDef)) and n.name in names: print(ast.unparse(n)); print()
else: print(ast.unparse(t))
