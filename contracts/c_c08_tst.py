"""C08: timestamp order (all pairs of 32-bit values, exact integers; the float literal (2**32)/2 is the real 2^31)."""
from pyvc.contracts import contract, T
from .shapes_geonet import *

S = dict(mode="int", spec_module="spec_geonet", props=["C08"], float_as_real=True)
TS = T.rec(f"{PV}:TST", msec=T.int(0, 2 ** 32 - 1))
ARGS = {"self": TS, "_TST__o": TS}

contract(f"{PV}:TST.__gt__", shapes={"self": TS, "__o": TS},
         ensures={"serial_order_annex_c2": "result == (0 < (self.msec - __o.msec) % 2 ** 32 < 2 ** 31 or ((self.msec - __o.msec) % 2 ** 32 == 2 ** 31 and self.msec > __o.msec))",
                  "irreflexive": "implies(self.msec == __o.msec, not result)",
                  "agrees_with_real_time": "forall(lambda t, d: implies(0 < d < 2 ** 31 and self.msec == (t + d) % 2 ** 32 and __o.msec == t % 2 ** 32, result))"},
         canary={"plain_gt": "result == (self.msec > __o.msec)"}, **S)
contract(f"{PV}:TST.__eq__", shapes={"self": TS, "__o": TS}, ensures={"eq": "result == (self.msec == __o.msec)"}, **S)
contract(f"{PV}:TST.__ge__", shapes={"self": TS, "__o": TS},
         ensures={"ge": "result == (self.msec == __o.msec or (0 < (self.msec - __o.msec) % 2 ** 32 < 2 ** 31 or ((self.msec - __o.msec) % 2 ** 32 == 2 ** 31 and self.msec > __o.msec)))"}, **S)
contract(f"{PV}:TST.__lt__", shapes={"self": TS, "__o": TS},
         ensures={"lt": "result == (not (self.msec == __o.msec or (0 < (self.msec - __o.msec) % 2 ** 32 < 2 ** 31 or ((self.msec - __o.msec) % 2 ** 32 == 2 ** 31 and self.msec > __o.msec))))"}, **S)
contract(f"{PV}:TST.__le__", shapes={"self": TS, "__o": TS},
         ensures={"le": "result == (not (0 < (self.msec - __o.msec) % 2 ** 32 < 2 ** 31 or ((self.msec - __o.msec) % 2 ** 32 == 2 ** 31 and self.msec > __o.msec)))"}, **S)
contract(f"{PV}:TST.__sub__", shapes={"self": TS, "__o": TS},
         ensures={"wrap_difference": "result == (self.msec - __o.msec) % 2 ** 32"}, **S)
contract(f"{PV}:TST.set_in_normal_timestamp_milliseconds", shapes={"utc_timestamp_milliseconds": T.int(0, 2 ** 62)},
         ensures={"its_ms_mod_2_32": "result.msec == (utc_timestamp_milliseconds - 1072915200000 + 5000) % 2 ** 32"}, **S)
contract(f"{PV}:TST.set_in_normal_timestamp_seconds", shapes={"utc_timestamp_seconds": T.float(0, 2 ** 40)},
         ensures={"its_ms_mod_2_32": "result.msec == int(((utc_timestamp_seconds - 1072915200 + 5) * 1000) % 2 ** 32)",
                  "range": "0 <= result.msec < 2 ** 32"}, **S)

contract("harness_geonet:tst_antisymmetric", shapes={"a": TS, "b": TS},
         ensures={"antisymmetric": "not result"}, **S)
contract("harness_geonet:tst_trichotomy_like", shapes={"a": TS, "b": TS},
         ensures={"exactly_one": "result == 1"}, **S)
