"""Spec for C12-C14: the LDM as a map from object identifier to stored record (abstract view of the in-memory back end)."""


def db_wf(db):
    """identifiers are handed out in increasing order and never reused: every stored key is below the next id"""
    return db._next_id >= 0 and (not map_has(db.database, map_key0(db.database)) or 0 <= map_key0(db.database) < db._next_id)


def K(db):
    """an arbitrary (tracked) identifier of the store"""
    return map_key0(db.database)


def db(iface):
    return iface.ldm_service.ldm_maintenance.data_containers


def db_same(iface):
    d = db(iface)
    return (d._next_id == old(d._next_id) and map_has(d.database, old(K(d))) == old(map_has(d.database, K(d))))
