"""Spec for C12-C14: the LDM as a map from object identifier to stored record (abstract view of the in-memory back end)."""


def db_wf(db):
    """identifiers are handed out in increasing order and never reused: every stored key is below the next id"""
    return db._next_id >= 0 and (not map_has(db.database, map_key0(db.database)) or 0 <= map_key0(db.database) < db._next_id)


def K(db):
    """an arbitrary (tracked) identifier of the store"""
    return map_key0(db.database)


def db(iface):
    return iface.ldm_service.ldm_maintenance.data_containers


def db_same(iface):
    d = db(iface)
    return (d._next_id == old(d._next_id) and map_has(d.database, old(K(d))) == old(map_has(d.database, K(d))))


# ---- C13: the meaning of a filter, written from EN 302 895 (one or two comparisons joined by and / or; an object
#      lacking the attribute does not match) ----

def attribute_of(record, path):
    """value of the dotted attribute path inside the record's message, or None if any component is missing"""
    cur = record['dataObject']
    for key in path.split('.'):
        if not isinstance(cur, dict) or key not in cur:
            return None
        cur = cur[key]
    return cur


def compare(value, op, ref):
    if op == 0:
        return value == ref
    if op == 1:
        return value != ref
    if op == 2:
        return value > ref
    if op == 3:
        return value < ref
    if op == 4:
        return value >= ref
    if op == 5:
        return value <= ref
    if op == 6:
        return False        # like: substring / element containment; numbers contain nothing
    return True             # notlike


def statement_matches(record, st):
    v = attribute_of(record, st.attribute)
    return v is not None and compare(v, st.operator.value, st.ref_value)


def filter_matches(record, f):
    if f.filter_statement_2 is None:
        return statement_matches(record, f.filter_statement_1)
    if f.logical_operator.value == 0:
        return statement_matches(record, f.filter_statement_1) and statement_matches(record, f.filter_statement_2)
    return statement_matches(record, f.filter_statement_1) or statement_matches(record, f.filter_statement_2)


def n_matching(database, f):
    """number of matching objects of a store of at most two objects (the bound of the C13 contracts)"""
    n = 0
    if len(database) > 0 and filter_matches(database[0], f):
        n = n + 1
    if len(database) > 1 and filter_matches(database[1], f):
        n = n + 1
    return n


# ---- C13: the same filter over ONE ARBITRARY TinyDB document (models_tinydb): the attribute path is relative to the
#      stored message, i.e. below 'dataObject'; a document lacking the path does not match ----

def tinydb_statement_matches(st):
    path = 'dataObject.' + st.attribute
    return model('doc_exists', path) and compare(model('doc_value', path), st.operator.value, st.ref_value)


def tinydb_filter_matches(f):
    if f.filter_statement_2 is None:
        return tinydb_statement_matches(f.filter_statement_1)
    if f.logical_operator.value == 0:
        return tinydb_statement_matches(f.filter_statement_1) and tinydb_statement_matches(f.filter_statement_2)
    return tinydb_statement_matches(f.filter_statement_1) or tinydb_statement_matches(f.filter_statement_2)


# ---- C14: notification cadence at the LDM's one-second clock ----

def its_now():
    """the LDM clock: whole UTC seconds expressed as an ITS timestamp in milliseconds"""
    return (int(now()) - 1072915200 + 5) * 1000


def previous_notification(svc, subscription):
    """time of the previous notification (or of the subscription) of `subscription`; the current time if none is recorded"""
    m = svc.last_checked_subscriptions_time
    return old(map_get(m, subscription).timestamp_its) if old(map_has(m, subscription)) else its_now()


def interval_passed(svc, subscription):
    nt = subscription.subscription_request.notify_time
    return nt is None or previous_notification(svc, subscription) + nt.timestamp_its <= its_now()


def old_subscriptions(svc):
    """snapshot (element values) of the subscription list at entry; lists of at most two subscriptions"""
    n = old(len(svc.subscriptions))
    out = []
    if n > 0:
        out = out + [old(svc.subscriptions[0])]
    if n > 1:
        out = out + [old(svc.subscriptions[1])]
    return out


def count_of(items, x):
    return len([i for i in items if i == x])


def request_of(req, subscription):
    """the data request handed to the store carries the subscription's own selection"""
    s = subscription.subscription_request
    return (req.application_id == s.application_id and req.data_object_type == s.data_object_type and req.priority == s.priority
            and req.order == s.order and req.filter == s.filter)


def due(svc, i):
    """subscription i (of the list at entry) must be served now: its consumer is still registered and its search
    returned at least one object and at least `multiplicity` objects"""
    s = old_subscriptions(svc)[i].subscription_request
    found = ghost('searches')[i][1]
    return (len(found) > 0 and (s.multiplicity is None or s.multiplicity <= len(found))
            and old(set_has(svc.data_consumer_its_aid, s.application_id)))


def n_due(svc):
    n = 0
    if old(len(svc.subscriptions)) > 0 and due(svc, 0):
        n = n + 1
    if old(len(svc.subscriptions)) > 1 and due(svc, 1):
        n = n + 1
    return n


# ---- C13 / C14: requested order: by the first attribute in its direction, ties by the next one, and so on ----

def order_key(record, attr):
    return record['dataObject']['cam'][attr]


def in_requested_order(x, y, orders):
    """x may come before y"""
    a0 = order_key(x, orders[0].attribute)
    b0 = order_key(y, orders[0].attribute)
    if a0 != b0:
        return a0 < b0 if orders[0].ordering_direction.value == 0 else a0 > b0
    if len(orders) == 1:
        return True
    a1 = order_key(x, orders[1].attribute)
    b1 = order_key(y, orders[1].attribute)
    if a1 != b1:
        return a1 < b1 if orders[1].ordering_direction.value == 0 else a1 > b1
    return True


def expired(record):
    """the record's validity period (seconds) after its ITS time stamp (ms) lies before the current LDM time"""
    return record['timeValidity'] * 1000 + record['timestamp'] < its_now()


# ---- C12: removal from the in-memory store (bounded stores with concrete identifiers) ----

def old_keys(db):
    return old(sorted(db.database.keys()))


def first_equal_key(db, record):
    """identifier of the first stored record (in identifier = insertion order) equal to `record`, at entry"""
    for k in (0, 1, 2, 3, 5):
        if old(k in db.database) and old(db.database[k] == record):
            return k
    return None


def removed_keys(db):
    return [k for k in (0, 1, 2, 3, 5) if old(k in db.database) and k not in db.database]


def old_value(db, k):
    return old(db.database[k])


def relevance_metres(code):
    """EN 302 895 RelevanceDistance: lessThan50m(0) ... lessThan10km(6), over10km(7)"""
    return {0: 50, 1: 100, 2: 200, 3: 500, 4: 1000, 5: 5000, 6: 10000}[code]


def inside_area_of_maintenance(m, record):
    """the record's position lies within the relevance distance of the area of maintenance (code 7, 'over 10 km', bounds
    nothing).  Distance as the maintenance code measures it (uninterpreted)."""
    code = m.area_of_maintenance.reference_area.relevance_area.relevance_distance.relevance_distance
    d = uf('euclid', 'real', record['location']['referencePosition']['latitude'], record['location']['referencePosition']['longitude'],
           m.area_of_maintenance.reference_position.latitude, m.area_of_maintenance.reference_position.longitude)
    return code == 7 or int(d) < relevance_metres(code)


def message_type_id(record):
    """EN 302 895 data object type of a stored record, from the message it holds (DENM 1, CAM 2, VAM 16)"""
    d = record['dataObject']
    if 'denm' in d:
        return 1
    if 'cam' in d:
        return 2
    if 'vam' in d:
        return 16
    return None
