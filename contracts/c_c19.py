"""C19: DCC reactive / adaptive / gate keeper.  Mode arith; floats are reals (stated)."""
from pyvc.contracts import contract, T

R = "flexstack.management.dcc_reactive"
A = "flexstack.management.dcc_adaptive"
S = dict(mode="int", spec_module="spec_dcc", props=["C19"], float_as_real=True)

REACT = T.obj(f"{R}:DccReactive", _table=T.oneof(T.modconst(R, "_TABLE_A1"), T.modconst(R, "_TABLE_A2")),
              state=T.enum(f"{R}:DccState"))
contract(f"{R}:DccReactive.__init__", shapes={"self": T.obj(f"{R}:DccReactive"), "t_on_max_us": T.int()},
         modifies=["self.*"],
         ensures={"table": "uses_a2(self) == (t_on_max_us <= 500)", "relaxed": "self.state.value == 0"}, **S)
contract(f"{R}:DccReactive._target_state", shapes={"self": REACT, "cbr": T.float(0.0, 1.0)},
         ensures={"band": "result.value == band(uses_a2(self), cbr)"}, **S)
contract(f"{R}:DccReactive.update", shapes={"self": REACT, "cbr": T.float()}, modifies=["self.state"],
         raises={"ValueError": "not (0.0 <= cbr <= 1.0)"},
         ensures={"one_step_toward_band": "self.state.value == step_toward(old(self.state.value), band(uses_a2(self), cbr))",
                  "adjacent": "-1 <= self.state.value - old(self.state.value) <= 1",
                  "output_state": "result.state == self.state",
                  "annex_a_row": "result.packet_rate_hz == rate(uses_a2(self), self.state.value) and result.t_off_ms == t_off(uses_a2(self), self.state.value)"},
         canary={"jumps": "self.state.value == band(uses_a2(self), cbr)"}, **S)

PARAMS = T.obj(f"{A}:DccAdaptiveParameters")
ADAPT = T.obj(f"{A}:DccAdaptive", parameters=PARAMS)
contract(f"{A}:DccAdaptive.update",
         shapes={"self": ADAPT, "cbr_local": T.float(), "cbr_local_previous": T.float(),
                 "cbr_global": T.opt(T.float()), "cbr_global_previous": T.opt(T.float())},
         modifies=["self.cbr_its_s", "self.delta"],
         raises={"ValueError": "not (0.0 <= cbr_local <= 1.0 and 0.0 <= cbr_local_previous <= 1.0)"},
         ensures={"cbr_its_s": "self.cbr_its_s == 0.5 * old(self.cbr_its_s) + 0.5 * ((cbr_global + cbr_global_previous) / 2 if cbr_global is not None and cbr_global_previous is not None else (cbr_local + cbr_local_previous) / 2)",
                  "delta_clause_5_4": "self.delta == adaptive_delta(self.parameters, old(self.delta), self.cbr_its_s)",
                  "within_bounds": "implies(self.parameters.delta_min <= self.parameters.delta_max, self.parameters.delta_min <= self.delta <= self.parameters.delta_max)",
                  "returns_delta": "result == self.delta"},
         canary={"no_smoothing": "self.delta == old(self.delta)"}, **S)

GK = T.obj(f"{A}:GateKeeper", _delta=T.float(), _t_pg=T.opt(T.float()), _t_go=T.opt(T.float()))
contract(f"{A}:GateKeeper.is_open", shapes={"self": GK, "t": T.float()},
         ensures={"open_exactly_from_t_go": "result == (self._t_go is None or t >= self._t_go)"}, **S)
contract(f"{A}:GateKeeper.admit_packet", shapes={"self": GK, "t": T.float(), "t_on": T.float()},
         requires=["self._delta > 0"], modifies=["self._t_pg", "self._t_go"],
         raises={"ValueError": "t_on <= 0.0"},
         ensures={"admitted_iff_open": "result == (old(self._t_go) is None or t >= old(self._t_go))",
                  "b1_next_opening": "implies(result, self._t_pg == t and self._t_go == t + gate_interval(t_on, self._delta))",
                  "closed_unchanged": "implies(not result, self._t_pg == old(self._t_pg) and self._t_go == old(self._t_go))",
                  "min_25ms_max_1s": "implies(result, t + 0.025 <= self._t_go <= t + 1.0)"}, **S)
contract(f"{A}:GateKeeper.update_delta", shapes={"self": GK, "t": T.float(), "delta_new": T.float()},
         requires=["self._delta > 0"], modifies=["self._delta", "self._t_go"],
         raises={"ValueError": "delta_new <= 0.0"},
         ensures={"delta": "self._delta == delta_new",
                  "b2_rescale": "implies(old(self._t_pg) is not None and old(self._t_go) is not None and t < old(self._t_go), self._t_go == old(self._t_pg) + clamp(old(self._delta) / delta_new * (old(self._t_go) - old(self._t_pg)), 0.025, 1.0))",
                  "t_go_unchanged_or_rescaled": "self._t_go == old(self._t_go) or (old(self._t_pg) is not None and old(self._t_go) is not None and self._t_go == old(self._t_pg) + clamp(old(self._delta) / delta_new * (old(self._t_go) - old(self._t_pg)), 0.025, 1.0))",
                  "t_pg_unchanged": "self._t_pg == old(self._t_pg)",
                  "open_or_idle_unchanged": "implies(old(self._t_pg) is None or old(self._t_go) is None or t >= old(self._t_go), self._t_go == old(self._t_go))"}, **S)

# ---------------------------------------------------------------- lemmas (over contracts only)
H = "harness_dcc"
contract(f"{H}:four_updates", shapes={"d": REACT, "cbr": T.float(0.0, 1.0)}, modifies=["d.state"],
         ensures={"band_reached_within_four": "result.value == band(uses_a2(d), cbr)"},
         canary={"three_suffice_is_not_claimed": "result.value == 0"}, **S)
contract(f"{H}:two_admissions",
         shapes={"g": GK, "t1": T.float(), "t_on1": T.float(), "t2": T.float(), "t_on2": T.float()},
         requires=["g._delta > 0", "t_on1 > 0", "t_on2 > 0", "t1 <= t2"], modifies=["g._t_pg", "g._t_go"],
         ensures={"at_least_25ms_apart": "implies(result, t2 - t1 >= 0.025)"},
         canary={"never_both": "not result"}, **S)
contract(f"{H}:admission_then_rescale_then_probe",
         shapes={"g": GK, "t1": T.float(), "t_on": T.float(), "tu": T.float(), "delta_new": T.float(), "t": T.float()},
         requires=["g._delta > 0", "t_on > 0", "delta_new > 0", "t1 <= tu", "t >= t1 + 1.0"],
         modifies=["g._t_pg", "g._t_go", "g._delta"],
         ensures={"closed_at_most_1s": "implies(result[0], result[1])"}, **S)
