"""Assumed model of tinydb.Query as used by the TinyDB back end (C13).

A query field `Query().a.b` denotes, for ONE ARBITRARY stored document, the pair (path exists, value at path) as
uninterpreted functions of the path; a comparison yields the predicate `exists and value <op> ref` (TinyDB: a test on a
missing path is False), `&` / `|` conjunction / disjunction, `.test(f)` the predicate `exists and f(value)`.
Query objects are always truthy (so `a or b` is `a`)."""
import z3
from pyvc.values import NONE, StrV, Opaque, RaiseV, TupleV, Unsupported, FuncV


def _exists(e, path):
    f = e.get_uf("doc.exists", [z3.IntSort()], z3.BoolSort())
    return f(e.str_id(path))


def _value(e, path):
    f = e.get_uf("doc.value", [z3.IntSort()], e.T.val(0).sort())
    return f(e.str_id(path))


def _path(o):
    return tuple(o.data["path"]) if o.data and not isinstance(o.data.get("path"), TupleV) else ()


def setup(e):
    e.used_assumptions.add("tinydb.Query: field access builds a dotted path; comparisons, & , | and .test() build predicates that are "
                           "False on documents lacking the path (TinyDB semantics); query objects are truthy")
    e.opaque_operators = {"tq", "tq_pred"}

    def x_query(e2, st, args, kwargs):
        yield st, Opaque("tq", None, {"path": ()})
    e.external_handlers["tinydb.Query"] = x_query
    e.external_handlers["print"] = lambda e2, st, a, k: iter([(st, NONE)])
    orig = e.opaque_attr

    def attr(st, o, name):
        if o.typ == "tq" and name not in ("test",):
            return Opaque("tq", None, {"path": _path(o) + (name,)})
        return orig(st, o, name)
    e.opaque_attr = attr

    def h_tq(e2, st, o, name, args, kwargs):
        path = ".".join(_path(o))
        ex, val = _exists(e2, path), _value(e2, path)
        ops = {"__eq__": lambda a, b: a == b, "__ne__": lambda a, b: a != b, "__lt__": lambda a, b: a < b,
               "__le__": lambda a, b: a <= b, "__gt__": lambda a, b: a > b, "__ge__": lambda a, b: a >= b}
        if name in ops:
            ref = args[0]
            if not e2.is_int(ref):
                raise Unsupported("query comparison with a non-integer reference value")
            yield st, Opaque("tq_pred", None, {"formula": z3.And(ex, ops[name](val, e2.to_int(ref)))})
        elif name == "test":
            outs = list(e2.call_value(st, args[0], [val], {}))
            f = None
            for s1, r in outs:
                if isinstance(r, RaiseV):
                    raise Unsupported("test predicate raising")
                delta = z3.And(*s1.pc[len(st.pc):]) if len(s1.pc) > len(st.pc) else z3.BoolVal(True)
                t = z3.And(delta, e2.truth(s1, r))
                f = t if f is None else z3.Or(f, t)
            yield st, Opaque("tq_pred", None, {"formula": z3.And(ex, f)})
        else:
            raise Unsupported(f"tinydb query .{name}")

    def h_pred(e2, st, o, name, args, kwargs):
        if name in ("__and__", "__or__") and isinstance(args[0], Opaque) and args[0].typ == "tq_pred":
            g = args[0].data["formula"]
            yield st, Opaque("tq_pred", None, {"formula": z3.And(o.data["formula"], g) if name == "__and__" else z3.Or(o.data["formula"], g)})
        elif name == "__invert__":
            # TinyDB: ~q matches every document on which q is False - including documents lacking the path
            yield st, Opaque("tq_pred", None, {"formula": z3.Not(o.data["formula"])})
        else:
            raise Unsupported(f"tinydb predicate .{name}")
    e.opaque_handlers.update({"tq": h_tq, "tq_pred": h_pred})
    e.model_fns = {
        "query_formula": lambda e2, st, a: a[0].data["formula"] if isinstance(a[0], Opaque) and a[0].typ == "tq_pred" else z3.BoolVal(False),
        "doc_exists": lambda e2, st, a: _exists(e2, a[0].s),
        "doc_value": lambda e2, st, a: _value(e2, a[0].s),
    }
