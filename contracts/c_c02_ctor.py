"""C02 / C20: header constructors (field values derived from request, MIB)."""
from pyvc.contracts import contract, T
from .shapes_geonet import *

S = dict(mode="bv", spec_module="spec_geonet")

contract(f"{CH}:CommonHeader.initialize_with_request", props=["C02", "C20", "C01"], shapes={"request": GNREQ, "mib": MIB}, returns=COMMON,
         ensures={"nh": "result.nh == request.upper_protocol_entity",
                  "type": "result.ht == request.packet_transport_type.header_type and result.hst == request.packet_transport_type.header_subtype",
                  "tc": "result.tc == request.traffic_class",
                  "mobile_flag_msb": "result.flags == mib.itsGnIsMobile.value * 128",
                  "pl": "result.pl == request.length",
                  "mhl": "result.mhl == (1 if is_shb(request.packet_transport_type) else request.max_hop_limit)",
                  "reserved": "result.reserved == 0"},
         canary={"flag_lsb": "result.flags == mib.itsGnIsMobile.value"}, **S)
contract(f"{CH}:CommonHeader.initialize_beacon", props=["C02", "C20"], shapes={"mib": MIB}, returns=COMMON,
         ensures={"nh": "result.nh.value == 0", "type": "result.ht.value == 1 and result.hst.value == 0 and hst_class_ok(result.ht, result.hst)",
                  "flags_octet": "0 <= result.flags <= 255",
                  "tc": "result.tc.tc_id == 0 and not result.tc.scf and not result.tc.channel_offload",
                  "mobile_flag_msb": "result.flags == mib.itsGnIsMobile.value * 128",
                  "pl": "result.pl == 0", "mhl": "result.mhl == 1", "reserved": "result.reserved == 0"}, **S)
