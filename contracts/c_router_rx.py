"""C06 / C01 / C07 / C08 / C20: receiver and forwarder operations of the GeoNetworking router (codec mode).
The location table is the abstract model of models_geonet (its real code is verified in c_loct.py)."""
from pyvc.contracts import contract, T
from .shapes_geonet import *
from . import models_geonet

S = dict(mode="bv", spec_module="spec_geonet", engine_setup=models_geonet.setup, native_setup="native_geonet:setup")
DE = "flexstack.geonet.exceptions:DecodeError"
RX_PRE = ["mib_ok(self.mib)", "lpv_valid(self.ego_position_vector)", "basic_header_valid(basic_header)",
          "common_header_valid(common_header)", "self.mib.itsGnMaxPacketDataRate >= 0"]


def ind_of(hst_cls):
    ptt = T.rec(f"{SAP}:PacketTransportType", header_subtype=T.enum(f"{SAP}:{hst_cls}"))
    return T.opt(T.rec(f"{SAP}:GNDataIndication", packet_transport_type=ptt, source_position_vector=LPV, traffic_class=TC,
                       destination_area=T.opt(AREA), data=T.bytes(0, 2000), remaining_packet_lifetime=T.opt(T.float()),
                       remaining_hop_limit=T.opt(T.int())))


def common_of(ht, hst_cls, only=None):
    return T.rec(f"{CH}:CommonHeader", tc=TC, ht=T.enum(f"{SAP}:HeaderType", only=[ht]),
                 hst=T.enum(f"{SAP}:{hst_cls}", only=only))


contract(f"{RT}:Router.gn_data_indicate_tsb", returns=ind_of("TopoBroadcastHST"), props=["C06", "C01", "C08", "C20", "C04"],
         shapes={"self": ROUTER, "packet": T.bytes(0, 2000), "common_header": common_of("TSB", "TopoBroadcastHST", ["MULTI_HOP"]),
                 "basic_header": BASIC},
         requires=RX_PRE,
         raises={DE: "len(packet) < 28", "ValueError": "len(packet) >= 28 and st_field(packet, 4) > 12"},
         ensures={
             "own_address_ignored": "implies(packet[6:12] == own_mid(self), result is None and n_sent() == 0 and n_updates() == 0)",
             "table_updated_at_most_once": "n_updates() <= 1",
             "delivery_needs_fresh_update": "implies(result is not None, n_updates() == 1)",
             "forward_needs_fresh_update": "implies(n_sent() > 0, n_updates() == 1)",
             "indication": "implies(result is not None, indication_ok(result, common_header, basic_header, 4, packet, 28) and result.packet_transport_type.header_type.value == 5 and result.packet_transport_type.header_subtype.value == 1)",
             "at_most_one_forward": "n_sent() <= 1",
             "no_forward_when_rhl_0_or_1": "implies(basic_header.rhl <= 1, n_sent() == 0)",
             "forward_rhl_minus_1": "implies(n_sent() == 1, sent0()[0:4] == basic_bytes_rhl(basic_header, basic_header.rhl - 1))",
             "forward_common_unchanged": "implies(n_sent() == 1, sent0()[4:12] == common_header_int(common_header).to_bytes(8, 'big'))",
             "forward_rest_identical": "implies(n_sent() == 1 and lpv_conformant(packet, 4), sent0()[12:] == packet)"},
         cover=["result is not None", "n_sent() == 1", "result is None"],
         canary={"always_forwards": "implies(result is not None, n_sent() == 1)"}, **S)

# ---------------------------------------------------------------- SHB / beacon (single hop: never forwarded)
contract(f"{RT}:Router.gn_data_indicate_shb", returns=ind_of("TopoBroadcastHST"), props=["C01", "C08", "C20", "C04", "C06"],
         shapes={"self": ROUTER, "packet": T.bytes(0, 2000), "common_header": common_of("TSB", "TopoBroadcastHST", ["SINGLE_HOP"]),
                 "basic_header": BASIC},
         requires=RX_PRE, raises={"ValueError": "len(packet) >= 24 and st_field(packet, 0) > 12"},
         ensures={
             "short_packet_discarded": "implies(len(packet) < 24, result is None and n_updates() == 0)",
             "own_address_ignored": "implies(len(packet) >= 24 and packet[2:8] == own_mid(self), result is None and n_updates() == 0)",
             "table_updated_at_most_once": "n_updates() <= 1",
             "delivered_iff_foreign": "implies(len(packet) >= 24 and packet[2:8] != own_mid(self), result is not None and n_updates() == 1)",
             "indication": "implies(result is not None, indication_ok(result, common_header, basic_header, 0, packet, 28) and result.packet_transport_type.header_type.value == 5 and result.packet_transport_type.header_subtype.value == 0)",
             "never_forwarded": "n_sent() == 0"},
         cover=["result is not None", "result is None"], **S)
contract(f"{RT}:Router.gn_data_indicate_beacon", props=["C08", "C04", "C06"],
         shapes={"self": ROUTER, "packet": T.bytes(0, 2000)},
         requires=["mib_ok(self.mib)"], raises={"ValueError": "len(packet) >= 24 and st_field(packet, 0) > 12"},
         ensures={"own_address_ignored": "implies(len(packet) >= 24 and packet[2:8] == own_mid(self), n_updates() == 0)",
                  "foreign_recorded_once": "implies(len(packet) >= 24 and packet[2:8] != own_mid(self), n_updates() == 1)",
                  "short_packet_discarded": "implies(len(packet) < 24, n_updates() == 0)",
                  "never_forwarded": "n_sent() == 0"}, **S)

# ---------------------------------------------------------------- GUC
contract(f"{RT}:Router.gn_data_indicate_guc", returns=ind_of("HeaderSubType"), props=["C06", "C01", "C08", "C20", "C04"],
         shapes={"self": ROUTER, "packet": T.bytes(0, 2000), "common_header": common_of("GEOUNICAST", "HeaderSubType"),
                 "basic_header": BASIC},
         requires=RX_PRE,
         raises={DE: "len(packet) < 48",
                 "ValueError": "len(packet) >= 48 and (st_field(packet, 4) > 12 or st_field(packet, 28) > 12)"},
         ensures={
             "own_address_ignored": "implies(packet[6:12] == own_mid(self), result is None and n_sent() == 0 and n_updates() == 0)",
             "table_updated_at_most_once": "n_updates() <= 1",
             "delivery_needs_fresh_update": "implies(result is not None, n_updates() == 1)",
             "forward_needs_fresh_update": "implies(n_sent() > 0, n_updates() == 1)",
             "delivered_iff_destination": "implies(n_updates() == 1, (result is not None) == (packet[30:36] == own_mid(self)))",
             "indication": "implies(result is not None, indication_ok(result, common_header, basic_header, 4, packet, 48) and result.packet_transport_type.header_type.value == 2)",
             "destination_never_forwards": "implies(result is not None, n_sent() == 0)",
             "at_most_one_forward": "n_sent() <= 1",
             "no_forward_when_rhl_0_or_1": "implies(basic_header.rhl <= 1, n_sent() == 0)",
             "forward_rhl_minus_1": "implies(n_sent() == 1, sent0()[0:4] == basic_bytes_rhl(basic_header, basic_header.rhl - 1))",
             "forward_common_unchanged": "implies(n_sent() == 1, sent0()[4:12] == common_header_int(common_header).to_bytes(8, 'big'))",
             "forward_so_pv_and_sn_identical": "implies(n_sent() == 1 and lpv_conformant(packet, 4), sent0()[12:40] == packet[0:28])",
             "forward_payload_identical": "implies(n_sent() == 1, sent0()[60:] == packet[48:])",
             "forward_de_pv_same_station": "implies(n_sent() == 1, sent0()[42:48] == packet[30:36])",
             "forward_de_pv_refreshed_only_by_a_newer_one": "implies(n_sent() == 1 and bits(be(packet, 28, 2), 0, 10) == 0 and sent0()[40:60] != packet[28:48], tst_newer(be(sent0(), 48, 4), be(packet, 36, 4)))"},
         cover=["result is not None", "n_sent() == 1"], **S)

# ---------------------------------------------------------------- GBC / GAC
GEO_POST = {
    "own_address_ignored": "implies(packet[6:12] == own_mid(self), result is None and n_emitted() == 0 and n_updates() == 0)",
    "table_updated_at_most_once": "n_updates() <= 1",
    "delivery_needs_fresh_update": "implies(result is not None, n_updates() == 1)",
    "forward_needs_fresh_update": "implies(n_emitted() > 0, n_updates() == 1)",
    "delivered_iff_inside": "implies(n_updates() == 1, (result is not None) == (F_area(common_header.hst.value, be(packet, 36, 2), be(packet, 38, 2), be(packet, 40, 2), sgn(be(packet, 28, 4), 32), sgn(be(packet, 32, 4), 32), self.ego_position_vector.latitude, self.ego_position_vector.longitude) >= 0))",
    "indication": "implies(result is not None, indication_ok(result, common_header, basic_header, 4, packet, 44) and result.packet_transport_type.header_type == common_header.ht and result.packet_transport_type.header_subtype == common_header.hst)",
    "indication_area": "implies(result is not None, result.destination_area.latitude == sgn(be(packet, 28, 4), 32) and result.destination_area.longitude == sgn(be(packet, 32, 4), 32) and result.destination_area.a == be(packet, 36, 2) and result.destination_area.b == be(packet, 38, 2) and result.destination_area.angle == be(packet, 40, 2))",
    "at_most_one_forward": "n_emitted() <= 1",
    "no_forward_when_rhl_0_or_1": "implies(basic_header.rhl <= 1, n_emitted() == 0)",
    "oversize_area_not_forwarded": "implies(area_size_m2(common_header.hst.value, be(packet, 36, 2), be(packet, 38, 2)) > self.mib.itsGnMaxGeoAreaSize * 1000000, n_emitted() == 0)",
    "forward_rhl_minus_1": "implies(n_emitted() == 1, emitted0()[0:4] == basic_bytes_rhl(basic_header, basic_header.rhl - 1))",
    "forward_common_unchanged": "implies(n_emitted() == 1, emitted0()[4:12] == common_header_int(common_header).to_bytes(8, 'big'))",
    "forward_rest_identical": "implies(n_emitted() == 1 and lpv_conformant(packet, 4), emitted0()[12:] == packet)",
}
GBC_POST = dict(GEO_POST)
GBC_POST["duplicate_overheard_drops_the_copy_waiting_in_the_cbf_buffer"] = (
    "implies(len(ghost('lt_duplicates')) == 1 and old(map_has(self._cbf_buffer, cbf_key_of(packet))), "
    "not map_has(self._cbf_buffer, cbf_key_of(packet)) and len(ghost('timers_cancelled')) == 1 "
    "and ghost('timers_cancelled')[0] is old(map_get(self._cbf_buffer, cbf_key_of(packet))) and n_emitted() == 0)")
GBC_POST["a_duplicate_is_neither_delivered_nor_buffered_nor_forwarded"] = (
    "implies(len(ghost('lt_duplicates')) == 1, result is None and n_timers() == 0 and n_emitted() == 0 and "
    "not map_has(self._cbf_buffer, cbf_key_of(packet)))")
contract(f"{RT}:Router.gn_data_indicate_gbc", returns=ind_of("GeoBroadcastHST"), props=["C06", "C01", "C07", "C08", "C20", "C04"],
         shapes={"self": ROUTER, "packet": T.bytes(0, 2000), "common_header": common_of("GEOBROADCAST", "GeoBroadcastHST"),
                 "basic_header": BASIC},
         requires=RX_PRE + ["self.mib.itsGnMaxGeoAreaSize >= 0", "self.mib.itsGnDefaultMaxCommunicationRange > 0", "0 <= self.mib.itsGnCbfMinTime <= self.mib.itsGnCbfMaxTime"], opaque=["F_area", "area_size_m2"],
         inline=[f"{RT}:Router.gn_data_forward_gbc", f"{RT}:Router.gn_area_cbf_forwarding"],
         raises={DE: "len(packet) < 44", "ValueError": "len(packet) >= 44 and st_field(packet, 4) > 12"},
         ensures=GBC_POST, cover=["result is not None", "n_sent() == 1", "n_timers() == 1", "len(ghost('timers_cancelled')) == 1"], **S)
GAC_POST = dict(GEO_POST)
GAC_POST["inside_never_forwards"] = "implies(result is not None, n_emitted() == 0)"
contract(f"{RT}:Router.gn_data_indicate_gac", returns=ind_of("GeoAnycastHST"), props=["C06", "C01", "C07", "C08", "C20", "C04"],
         shapes={"self": ROUTER, "packet": T.bytes(0, 2000), "common_header": common_of("GEOANYCAST", "GeoAnycastHST"),
                 "basic_header": BASIC},
         requires=RX_PRE + ["self.mib.itsGnMaxGeoAreaSize >= 0"], opaque=["F_area", "area_size_m2"],
         raises={DE: "len(packet) < 44", "ValueError": "len(packet) >= 44 and st_field(packet, 4) > 12"},
         ensures=GAC_POST, cover=["result is not None", "n_sent() == 1"], **S)

# ---------------------------------------------------------------- location service packets
LS_POST = {
    "own_address_ignored": "implies(packet[6:12] == own_mid(self), n_sent() == 0 and n_updates() == 0)",
    "table_updated_at_most_once": "n_updates() <= 1",
    "send_needs_fresh_update": "implies(n_sent() > 0, n_updates() == 1)",
    "at_most_one_frame": "n_sent() <= 1",
    "returns_none": "result is None",
}
contract(f"{RT}:Router.gn_data_indicate_ls_request", props=["C06", "C01", "C08", "C04", "C02"],
         shapes={"self": ROUTER, "packet": T.bytes(0, 2000), "common_header": common_of("LS", "LocationServiceHST", ["LS_REQUEST"]),
                 "basic_header": BASIC},
         requires=RX_PRE,
         raises={DE: "len(packet) < 36",
                 "ValueError": "len(packet) >= 36 and (st_field(packet, 4) > 12 or st_field(packet, 28) > 12)"},
         modifies=["self.sequence_number"],
         ensures=dict(LS_POST, **{
             "forward_only_when_not_target": "implies(n_sent() == 1 and packet[30:36] != own_mid(self), sent0()[0:4] == basic_bytes_rhl(basic_header, basic_header.rhl - 1) and sent0()[4:12] == common_header_int(common_header).to_bytes(8, 'big'))",
             "forward_rest_identical": "implies(n_sent() == 1 and packet[30:36] != own_mid(self) and lpv_conformant(packet, 4) and bits(be(packet, 28, 2), 0, 10) == 0, sent0()[12:] == packet)",
             "no_forward_when_rhl_0_or_1": "implies(basic_header.rhl <= 1 and packet[30:36] != own_mid(self), n_sent() == 0)",
             "reply_basic_header": "implies(n_sent() == 1 and packet[30:36] == own_mid(self), frame_basic_ok(sent0(), 1, self.mib.itsGnDefaultHopLimit) and len(sent0()) == 60)",
             "reply_common_header": "implies(n_sent() == 1 and packet[30:36] == own_mid(self), sent0()[4:12] == common_bytes(CommonNH.ANY, common_header.ht, LocationServiceHST.LS_REPLY, TrafficClass(), self.mib.itsGnIsMobile.value, 0, self.mib.itsGnDefaultHopLimit))",
             "reply_so_pv_is_ego": "implies(n_sent() == 1 and packet[30:36] == own_mid(self), sent0()[16:40] == lpv_int(self.ego_position_vector).to_bytes(24, 'big'))",
             "reply_addressed_to_requester": "implies(n_sent() == 1 and packet[30:36] == own_mid(self), sent0()[42:48] == packet[6:12])",
         }), cover=["n_sent() == 1"], **S)

# ---------------------------------------------------------------- dispatch: common header / basic header
ANY_COMMON = T.rec(f"{CH}:CommonHeader", tc=TC, hst=HST_ANY)
IND = T.rec(f"{SAP}:GNDataIndication", packet_transport_type=PTT, source_position_vector=LPV, traffic_class=TC,
            destination_area=T.opt(AREA), data=T.bytes(0, 2000), remaining_packet_lifetime=T.opt(T.float()),
            remaining_hop_limit=T.opt(T.int()))
for _h in ("shb", "tsb", "gbc", "gac", "guc"):
    pass
contract(f"{RT}:Router.process_common_header", props=["C20", "C01", "C04", "C06"],
         shapes={"self": ROUTER, "packet": T.bytes(0, 2000), "basic_header": BASIC},
         requires=["mib_ok(self.mib)", "lpv_valid(self.ego_position_vector)", "basic_header_valid(basic_header)",
                   "self.mib.itsGnMaxPacketDataRate >= 0", "self.mib.itsGnMaxGeoAreaSize >= 0",
                   "self.mib.itsGnDefaultMaxCommunicationRange > 0", "0 <= self.mib.itsGnCbfMinTime <= self.mib.itsGnCbfMaxTime"],
         may_raise=["flexstack.geonet.exceptions:DecodeError", "ValueError", "NotImplementedError",
                    "flexstack.geonet.exceptions:DecapError"],
         ensures={"hop_limit_above_maximum_never_processed": "implies(len(packet) >= 8 and basic_header.rhl > be(packet, 6, 1), False)",
                  "callback_at_most_once": "len(ghost('callbacks')) <= 1"},
         modifies=["self.sequence_number"], frame_check=False, **S)

contract(f"{RT}:Router.gn_data_indicate_ls_reply", props=["C06", "C01", "C08", "C04"],
         bound="LS packet buffer holding 0..2 requests (flush clauses); all other clauses unbounded", shapes={"self": ROUTER, "packet": T.bytes(0, 2000), "common_header": common_of("LS", "LocationServiceHST", ["LS_REPLY"]),
                 "basic_header": BASIC},
         requires=RX_PRE,
         raises={DE: "len(packet) < 48",
                 "ValueError": "len(packet) >= 48 and (st_field(packet, 4) > 12 or st_field(packet, 28) > 12)"},
         modifies=["self.sequence_number"], frame_check=False,
         ensures=dict(LS_POST, **{
             "flush_in_buffer_order_when_addressed_to_us": "implies(n_updates() == 1 and packet[30:36] == own_mid(self), n_sent() == 0)",
             "forward_when_not_addressed_to_us": "implies(n_sent() == 1, packet[30:36] != own_mid(self) and sent0()[0:4] == basic_bytes_rhl(basic_header, basic_header.rhl - 1) and sent0()[4:12] == common_header_int(common_header).to_bytes(8, 'big') and sent0()[60:] == packet[48:])",
             "forward_so_pv_identical": "implies(n_sent() == 1 and lpv_conformant(packet, 4), sent0()[12:40] == packet[0:28])",
             "no_forward_when_rhl_0_or_1": "implies(basic_header.rhl <= 1, n_sent() == 0)",
             "reissued_are_the_buffered_requests": "len(ghost('reissued')) <= 2"}),
         **S)


def _pch_ghost(e, st, env):
    from pyvc.values import TupleV
    return st.ghost_append("pch_calls", TupleV([env["packet"], env["basic_header"]]))


REGISTRY_PCH = None
from pyvc.contracts import REGISTRY as _R
_R[f"{RT}:Router.process_common_header"].ghost_effect = _pch_ghost

contract(f"{RT}:Router.process_security_header", props=["C03", "C04"],
         shapes={"self": ROUTER, "packet": T.bytes(0, 2000), "basic_header": BASIC},
         requires=["mib_ok(self.mib)", "lpv_valid(self.ego_position_vector)", "basic_header_valid(basic_header)",
                   "self.mib.itsGnMaxPacketDataRate >= 0", "self.mib.itsGnMaxGeoAreaSize >= 0",
                   "self.mib.itsGnDefaultMaxCommunicationRange > 0", "0 <= self.mib.itsGnCbfMinTime <= self.mib.itsGnCbfMaxTime"],
         may_raise=["flexstack.geonet.exceptions:DecodeError", "ValueError", "NotImplementedError",
                    "flexstack.geonet.exceptions:DecapError"],
         modifies=["self.sequence_number"], frame_check=False,
         ensures={"no_verifier_nothing_processed": "implies(self.verify_service is None, len(ghost('pch_calls')) == 0)",
                  "processed_only_after_successful_verification": "implies(len(ghost('pch_calls')) > 0, len(ghost('verify_calls')) == 1 and ghost('verify_calls')[0][1].report.value == 0)",
                  "exactly_the_verified_plain_message": "implies(len(ghost('pch_calls')) > 0, len(ghost('pch_calls')) == 1 and ghost('pch_calls')[0][0] == ghost('verify_calls')[0][1].plain_message)",
                  "verified_over_the_received_bytes": "implies(len(ghost('verify_calls')) == 1, ghost('verify_calls')[0][0].message == packet)",
                  "failed_verification_discards": "implies(len(ghost('verify_calls')) == 1 and ghost('verify_calls')[0][1].report.value != 0, len(ghost('pch_calls')) == 0)",
                  "next_header_reset_to_common": "implies(len(ghost('pch_calls')) == 1, ghost('pch_calls')[0][1].nh.value == 1 and ghost('pch_calls')[0][1].rhl == basic_header.rhl)"},
         cover=["len(ghost('pch_calls')) == 1"], **S)


def _psh_ghost(e, st, env):
    from pyvc.values import TupleV
    return st.ghost_append("psh_calls", TupleV([env["packet"], env["basic_header"]]))


_R[f"{RT}:Router.process_security_header"].ghost_effect = _psh_ghost

contract(f"{RT}:Router.process_basic_header", props=["C03", "C04", "C01", "C20"],
         shapes={"self": ROUTER, "packet": T.bytes(0, 2000)},
         requires=["mib_ok(self.mib)", "lpv_valid(self.ego_position_vector)", "self.mib.itsGnMaxPacketDataRate >= 0",
                   "self.mib.itsGnMaxGeoAreaSize >= 0", "self.mib.itsGnDefaultMaxCommunicationRange > 0",
                   "0 <= self.mib.itsGnCbfMinTime <= self.mib.itsGnCbfMaxTime"],
         may_raise=["flexstack.geonet.exceptions:DecodeError", "ValueError", "NotImplementedError",
                    "flexstack.geonet.exceptions:DecapError"],
         modifies=["self.sequence_number"], frame_check=False,
         ensures={"unsecured_packets_dropped_when_security_enabled": "implies(self.mib.itsGnSecurity.value == 1, len(ghost('pch_calls')) == 0)",
                  "secured_go_through_verification": "implies(len(ghost('psh_calls')) > 0, len(packet) >= 4 and bits(be(packet, 0, 1), 0, 4) == 2 and ghost('psh_calls')[0][0] == packet[4:])",
                  "plain_common_header_path": "implies(len(ghost('pch_calls')) > 0, bits(be(packet, 0, 1), 0, 4) == 1 and ghost('pch_calls')[0][0] == packet[4:] and ghost('pch_calls')[0][1].rhl == be(packet, 3, 1))"},
         cover=["len(ghost('pch_calls')) == 1", "len(ghost('psh_calls')) == 1"], **S)
