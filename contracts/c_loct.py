"""C06 / C08: the real LocationTableEntry / LocationTable methods (arithmetic mode)."""
from pyvc.contracts import contract, T
from .shapes_geonet import *
from .models_geonet import VALID_LPV

LT_ = "flexstack.geonet.location_table"
S = dict(mode="int", spec_module="spec_loct", float_as_real=True)
ENTRY = T.obj(f"{LT_}:LocationTableEntry", mib=MIB, version=T.int(), position_vector_lock=T.lock,
              position_vector=VALID_LPV, ls_pending=T.bool, is_neighbour=T.bool, tst_lock=T.lock,
              tst=T.rec(f"{PV}:TST", msec=T.int(0, 2 ** 32 - 1)), pdr_lock=T.lock, pdr=T.float(0), dpl_lock=T.lock,
              dpl_set=T.symset(), dpl_deque=T.symdeque())
DUP = "flexstack.geonet.exceptions:DuplicatedPacketException"

contract(f"{LT_}:LocationTableEntry.check_duplicate_sn", props=["C06"], shapes={"self": ENTRY, "sn": T.int(0, 65535)},
         requires=["dpl_wf(self)"], modifies=["self.dpl_set", "self.dpl_deque"],
         raises={DUP: "set_has(self.dpl_set, sn)"},
         ensures={"ring_invariant_kept": "dpl_wf(self)",
                  "now_member": "set_has(self.dpl_set, sn)",
                  "is_newest": "dq_at(self.dpl_deque, dq_len(self.dpl_deque) - 1) == sn",
                  "length": "dq_len(self.dpl_deque) == (old(dq_len(self.dpl_deque)) + 1 if old(dq_len(self.dpl_deque)) < dq_maxlen(self.dpl_deque) else dq_maxlen(self.dpl_deque))",
                  "others_kept_unless_oldest_evicted": "forall(lambda x: implies(x != sn, set_has(self.dpl_set, x) == (old(set_has(self.dpl_set, x)) and not (old(dq_len(self.dpl_deque)) == dq_maxlen(self.dpl_deque) and x == old(dq_at(self.dpl_deque, 0))))))",
                  "window_is_the_last_maxlen": "forall(lambda i: implies(0 <= i < dq_len(self.dpl_deque) - 1, dq_at(self.dpl_deque, i) == old(dq_at(self.dpl_deque, i + (1 if old(dq_len(self.dpl_deque)) == dq_maxlen(self.dpl_deque) else 0)))))"},
         raises_unchanged=[DUP],
         canary={"evicts_newest": "old(dq_len(self.dpl_deque)) < 1 or set_has(self.dpl_set, old(dq_at(self.dpl_deque, 0)))"},
         cover=["old(dq_len(self.dpl_deque)) == dq_maxlen(self.dpl_deque)"], **S)
