"""C06 / C08: the real LocationTableEntry / LocationTable methods (arithmetic mode)."""
from pyvc.contracts import contract, T
from .shapes_geonet import *
from .models_geonet import VALID_LPV

LT_ = "flexstack.geonet.location_table"
def _symsets(e):
    e.symbolic_sets = True


S = dict(mode="int", spec_module="spec_loct", float_as_real=True, engine_setup=_symsets)
ENTRY = T.obj(f"{LT_}:LocationTableEntry", mib=MIB, version=T.int(), position_vector_lock=T.lock,
              position_vector=VALID_LPV, ls_pending=T.bool, is_neighbour=T.bool, tst_lock=T.lock,
              tst=T.rec(f"{PV}:TST", msec=T.int(0, 2 ** 32 - 1)), pdr_lock=T.lock, pdr=T.float(0), dpl_lock=T.lock,
              dpl_set=T.symset(), dpl_deque=T.symdeque())
DUP = "flexstack.geonet.exceptions:DuplicatedPacketException"

contract(f"{LT_}:LocationTableEntry.check_duplicate_sn", props=["C06", "C01"], shapes={"self": ENTRY, "sn": T.int(0, 65535)},
         requires=["dpl_wf(self)"], modifies=["self.dpl_set", "self.dpl_deque"],
         raises={DUP: "set_has(self.dpl_set, sn)"},
         ensures={"ring_invariant_kept": "dpl_wf(self)",
                  "now_member": "set_has(self.dpl_set, sn)",
                  "is_newest": "dq_at(self.dpl_deque, dq_len(self.dpl_deque) - 1) == sn",
                  "length": "dq_len(self.dpl_deque) == (old(dq_len(self.dpl_deque)) + 1 if old(dq_len(self.dpl_deque)) < dq_maxlen(self.dpl_deque) else dq_maxlen(self.dpl_deque))",
                  "others_kept_unless_oldest_evicted": "forall(lambda x: implies(x != sn, set_has(self.dpl_set, x) == (old(set_has(self.dpl_set, x)) and not (old(dq_len(self.dpl_deque)) == dq_maxlen(self.dpl_deque) and x == old(dq_at(self.dpl_deque, 0))))))",
                  "window_is_the_last_maxlen": "forall(lambda p: implies(dq_lo(self.dpl_deque) <= p < dq_hi(self.dpl_deque) - 1, dq_at_pos(self.dpl_deque, p) == old(dq_at_pos(self.dpl_deque, p)))) and dq_hi(self.dpl_deque) == old(dq_hi(self.dpl_deque)) + 1 and dq_lo(self.dpl_deque) == old(dq_lo(self.dpl_deque)) + (1 if old(dq_len(self.dpl_deque)) == dq_maxlen(self.dpl_deque) else 0)"},
         raises_unchanged=[DUP],
         canary={"evicts_newest": "old(dq_len(self.dpl_deque)) < 1 or set_has(self.dpl_set, old(dq_at(self.dpl_deque, 0)))"},
         cover=["old(dq_len(self.dpl_deque)) == dq_maxlen(self.dpl_deque)"], **S)

PVS = VALID_LPV
contract(f"{LT_}:LocationTableEntry.update_position_vector", props=["C08"], shapes={"self": ENTRY, "position_vector": PVS},
         modifies=["self.position_vector"],
         ensures={"newest_wins": "self.position_vector == (position_vector if (old(self.position_vector.tst.msec) == 0 or tst_newer(position_vector.tst.msec, old(self.position_vector.tst.msec))) else old(self.position_vector))",
                  "older_or_equal_never_replaces": "implies(old(self.position_vector.tst.msec) != 0 and not tst_newer(position_vector.tst.msec, old(self.position_vector.tst.msec)), self.position_vector == old(self.position_vector))"},
         canary={"always_replaces": "self.position_vector == position_vector"}, **S)
contract(f"{LT_}:LocationTableEntry.update_pdr", props=["C08"], shapes={"self": ENTRY, "position_vector": PVS, "packet_size": T.int(0, 70000)},
         requires=["self.pdr >= 0", "0 <= self.mib.itsGnMaxPacketDataRateEmaBeta <= 100"], modifies=["self.tst", "self.pdr"],
         ensures={"tst_is_last_packet_time": "self.tst.msec == position_vector.tst.msec", "pdr_nonnegative": "self.pdr >= 0"}, **S)
contract(f"{LT_}:LocationTableEntry.update_with_shb_packet", props=["C08"],
         shapes={"self": ENTRY, "position_vector": PVS, "packet": T.bytes(0, 2000)},
         requires=["self.pdr >= 0", "0 <= self.mib.itsGnMaxPacketDataRateEmaBeta <= 100"],
         modifies=["self.position_vector", "self.tst", "self.pdr", "self.is_neighbour"],
         ensures={"becomes_neighbour": "self.is_neighbour",
                  "newest_pv": "self.position_vector == (position_vector if (old(self.position_vector.tst.msec) == 0 or tst_newer(position_vector.tst.msec, old(self.position_vector.tst.msec))) else old(self.position_vector))"}, **S)
contract(f"{LT_}:LocationTableEntry.update_with_tsb_packet", props=["C08", "C06"],
         shapes={"self": ENTRY, "packet": T.bytes(0, 2000), "tsb_extended_header": T.rec(f"{TSBH}:TSBExtendedHeader", so_pv=PVS, sn=T.int(0, 65535)),
                 "is_new_entry": T.bool},
         requires=["dpl_wf(self)", "self.pdr >= 0", "0 <= self.mib.itsGnMaxPacketDataRateEmaBeta <= 100"],
         modifies=["self.position_vector", "self.tst", "self.pdr", "self.is_neighbour", "self.dpl_set", "self.dpl_deque"],
         raises={DUP: "set_has(self.dpl_set, tsb_extended_header.sn)"}, raises_unchanged=[DUP],
         ensures={"neighbour_flag_kept_for_known_source": "self.is_neighbour == (False if is_new_entry else old(self.is_neighbour))",
                  "newest_pv": "self.position_vector == newest_pv(old(self.position_vector), tsb_extended_header.so_pv)",
                  "sn_recorded": "set_has(self.dpl_set, tsb_extended_header.sn)", "ring_invariant_kept": "dpl_wf(self)"}, **S)
contract(f"{LT_}:LocationTableEntry.update_with_gbc_packet", props=["C08", "C06"],
         shapes={"self": ENTRY, "packet": T.bytes(0, 2000), "gbc_extended_header": T.rec(f"{GBCH}:GBCExtendedHeader", so_pv=PVS, sn=T.int(0, 65535))},
         requires=["dpl_wf(self)", "self.pdr >= 0", "0 <= self.mib.itsGnMaxPacketDataRateEmaBeta <= 100"],
         modifies=["self.position_vector", "self.tst", "self.pdr", "self.is_neighbour", "self.dpl_set", "self.dpl_deque"],
         raises={DUP: "set_has(self.dpl_set, gbc_extended_header.sn)"}, raises_unchanged=[DUP],
         ensures={"neighbour_flag_untouched": "self.is_neighbour == old(self.is_neighbour)",
                  "newest_pv": "self.position_vector == newest_pv(old(self.position_vector), gbc_extended_header.so_pv)",
                  "sn_recorded": "set_has(self.dpl_set, gbc_extended_header.sn)", "ring_invariant_kept": "dpl_wf(self)"}, **S)

# ---------------------------------------------------------------- LocationTable (map keyed by GN address; one arbitrary entry tracked)
LOCT = T.obj(f"{LT_}:LocationTable", mib=MIB, loc_t=T.keymap("loc_t", GNADDR, ENTRY), loc_t_lock=T.opaque("rlock"))
contract(f"{LT_}:LocationTable.refresh_table", props=["C08"], shapes={"self": LOCT},
         requires=["self.mib.itsGnLifetimeLocTE >= 0", "now() >= 1072915200"], modifies=["self.loc_t"], frame_check=False,
         ensures={
             "kept_iff_signed_age_within_lifetime": "implies(old(map_has(self.loc_t, map_key0(self.loc_t))), map_has(self.loc_t, old(map_key0(self.loc_t))) == (sgn32((clock_tst_ms() - old(map_get(self.loc_t, map_key0(self.loc_t)).position_vector.tst.msec)) % 2 ** 32) <= self.mib.itsGnLifetimeLocTE * 1000))",
             "never_resurrects": "implies(not old(map_has(self.loc_t, map_key0(self.loc_t))), not map_has(self.loc_t, old(map_key0(self.loc_t))))"},
         canary={"unsigned_age": "implies(old(map_has(self.loc_t, map_key0(self.loc_t))), map_has(self.loc_t, old(map_key0(self.loc_t))) == ((clock_tst_ms() - old(map_get(self.loc_t, map_key0(self.loc_t)).position_vector.tst.msec)) % 2 ** 32 <= self.mib.itsGnLifetimeLocTE * 1000))"},
         **S)

# lemma: what the signed age of the second-truncated clock means in real time (pure integer arithmetic)
contract("harness_loct:entry_kept", props=["C08"], mode="int", spec_module="spec_loct",
         shapes={"now_ms": T.int(0, 2 ** 62), "stamp_ms": T.int(0, 2 ** 62), "lifetime_s": T.int(0, 100000)},
         ensures={"kept_for_the_lifetime": "implies(0 <= now_ms - stamp_ms <= lifetime_s * 1000, result)",
                  "kept_when_sender_clock_ahead": "implies(-5000 <= now_ms - stamp_ms < 0, result)",
                  "gone_afterwards": "implies(lifetime_s * 1000 + 1000 <= now_ms - stamp_ms < 2 ** 31, not result)"})

contract(f"{LT_}:LocationTableEntry.__init__", props=["C08", "C06"], shapes={"self": ENTRY, "mib": MIB},
         requires=["mib.itsGnDPLLength >= 1"], modifies=["self.*"], frame_check=False,
         ensures={"not_neighbour": "not self.is_neighbour and not self.ls_pending",
                  "no_position_yet": "self.position_vector.tst.msec == 0 and self.tst.msec == 0 and self.pdr == 0 and all_zero_addr(self.position_vector.gn_addr)",
                  "empty_duplicate_list": "dq_len(self.dpl_deque) == 0 and dq_maxlen(self.dpl_deque) == mib.itsGnDPLLength and forall(lambda x: not set_has(self.dpl_set, x))",
                  "mib": "self.mib == mib"}, **S)

LT_PRE = ["self.mib.itsGnLifetimeLocTE >= 0", "now() >= 1072915200", "self.mib.itsGnDPLLength >= 1",
          "0 <= self.mib.itsGnMaxPacketDataRateEmaBeta <= 100",
          "implies(map_has(self.loc_t, K0(self)), entry_ok(map_get(self.loc_t, K0(self))))"]
INL = [f"{LT_}:LocationTable.refresh_table", f"{LT_}:LocationTable.get_entry"]
contract(f"{LT_}:LocationTable.new_shb_packet", props=["C08"],
         shapes={"self": LOCT, "position_vector": PVS, "packet": T.bytes(0, 2000)},
         requires=LT_PRE + ["gn_key_eq(K0(self), position_vector.gn_addr)"], inline=INL, frame_check=False,
         modifies=["self.loc_t"],
         ensures={"neighbour_from_single_hop": "implies(map_has(self.loc_t, position_vector.gn_addr), map_get(self.loc_t, position_vector.gn_addr).is_neighbour)",
                  "newest_position_vector": "implies(map_has(self.loc_t, position_vector.gn_addr) and old(map_has(self.loc_t, K0(self))), map_get(self.loc_t, position_vector.gn_addr).position_vector == newest_pv(old(map_get(self.loc_t, K0(self)).position_vector), position_vector))",
                  "first_position_vector": "implies(map_has(self.loc_t, position_vector.gn_addr) and not old(map_has(self.loc_t, K0(self))), map_get(self.loc_t, position_vector.gn_addr).position_vector == position_vector)",
                  "present_iff_not_expired": "map_has(self.loc_t, position_vector.gn_addr) == (sgn32((clock_tst_ms() - map_get(self.loc_t, position_vector.gn_addr).position_vector.tst.msec) % 2 ** 32) <= self.mib.itsGnLifetimeLocTE * 1000)"},
         cover=["old(map_has(self.loc_t, K0(self)))", "not old(map_has(self.loc_t, K0(self)))"], **S)


def _multi_hop(name, hdr_param, hdr_shape):
    contract(f"{LT_}:LocationTable.{name}", props=["C08", "C06", "C01"],
             shapes={"self": LOCT, hdr_param: hdr_shape, "packet": T.bytes(0, 2000)},
             requires=LT_PRE + [f"gn_key_eq(K0(self), {hdr_param}.so_pv.gn_addr)"], inline=INL, frame_check=False,
             modifies=["self.loc_t"],
             raises={DUP: f"map_has(self.loc_t, K0(self)) and set_has(map_get(self.loc_t, K0(self)).dpl_set, {hdr_param}.sn)"},
             ensures={"neighbour_flag_untouched_by_multi_hop": f"implies(map_has(self.loc_t, {hdr_param}.so_pv.gn_addr), map_get(self.loc_t, {hdr_param}.so_pv.gn_addr).is_neighbour == (old(map_has(self.loc_t, K0(self))) and old(map_get(self.loc_t, K0(self)).is_neighbour)))",
                      "new_source_entered_unless_expired": f"implies(not old(map_has(self.loc_t, K0(self))), map_has(self.loc_t, {hdr_param}.so_pv.gn_addr) == (sgn32((clock_tst_ms() - {hdr_param}.so_pv.tst.msec) % 2 ** 32) <= self.mib.itsGnLifetimeLocTE * 1000))",
                      "first_position_vector": f"implies(not old(map_has(self.loc_t, K0(self))) and map_has(self.loc_t, {hdr_param}.so_pv.gn_addr), map_get(self.loc_t, {hdr_param}.so_pv.gn_addr).position_vector == {hdr_param}.so_pv)",
                      "sequence_number_recorded": f"implies(map_has(self.loc_t, {hdr_param}.so_pv.gn_addr), set_has(map_get(self.loc_t, {hdr_param}.so_pv.gn_addr).dpl_set, {hdr_param}.sn))",
                      "ring_invariant_kept": f"implies(map_has(self.loc_t, {hdr_param}.so_pv.gn_addr), dpl_wf(map_get(self.loc_t, {hdr_param}.so_pv.gn_addr)))",
                      "newest_position_vector": f"implies(map_has(self.loc_t, {hdr_param}.so_pv.gn_addr) and old(map_has(self.loc_t, K0(self))), map_get(self.loc_t, {hdr_param}.so_pv.gn_addr).position_vector == newest_pv(old(map_get(self.loc_t, K0(self)).position_vector), {hdr_param}.so_pv))"},
             cover=["old(map_has(self.loc_t, K0(self)))", "not old(map_has(self.loc_t, K0(self)))"], **S)


_multi_hop("new_tsb_packet", "tsb_extended_header", T.rec(f"{TSBH}:TSBExtendedHeader", so_pv=PVS, sn=T.int(0, 65535)))
_multi_hop("new_gbc_packet", "gbc_extended_header", T.rec(f"{GBCH}:GBCExtendedHeader", so_pv=PVS, sn=T.int(0, 65535)))
_multi_hop("new_gac_packet", "gbc_extended_header", T.rec(f"{GBCH}:GBCExtendedHeader", so_pv=PVS, sn=T.int(0, 65535)))
_multi_hop("new_guc_packet", "guc_extended_header", T.rec(f"{GUCH}:GUCExtendedHeader", so_pv=PVS, de_pv=SPV, sn=T.int(0, 65535)))
_multi_hop("new_ls_request_packet", "ls_request_header", T.rec(f"{LSH}:LSRequestExtendedHeader", so_pv=PVS, request_gn_addr=GNADDR, sn=T.int(0, 65535)))
_multi_hop("new_ls_reply_packet", "ls_reply_header", T.rec(f"{LSH}:LSReplyExtendedHeader", so_pv=PVS, de_pv=SPV, sn=T.int(0, 65535)))

# a placeholder created while a location-service lookup is pending must not look like a learnt position vector
contract(f"{LT_}:LocationTable.ensure_entry", props=["C01", "C08"], shapes={"self": LOCT, "gn_address": GNADDR},
         requires=["self.mib.itsGnDPLLength >= 1", "gn_key_eq(K0(self), gn_address)"], modifies=["self.loc_t"], frame_check=False,
         ensures={"an_existing_entry_is_returned_untouched": "implies(old(map_has(self.loc_t, K0(self))), result is old(map_get(self.loc_t, K0(self))))",
                  "the_entry_is_in_the_table_afterwards": "map_has(self.loc_t, gn_address) and map_get(self.loc_t, gn_address) is result",
                  "a_new_entry_is_a_placeholder_without_position_vector": "implies(not old(map_has(self.loc_t, K0(self))), not result.is_neighbour and not result.ls_pending and result.position_vector.tst.msec == 0 and all_zero_addr(result.position_vector.gn_addr))"},
         cover=["old(map_has(self.loc_t, K0(self)))", "not old(map_has(self.loc_t, K0(self)))"], **S)
