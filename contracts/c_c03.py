"""C03 / C09: VerifyService.verify - SUCCESS only after every check passed on this very message."""
from pyvc.contracts import contract, T
from . import models_sec

SS = "flexstack.security"
VS = T.obj(f"{SS}.verify_service:VerifyService", backend=T.opaque("ecdsa_backend"), certificate_library=T.opaque("cert_library"),
           sign_service=T.opt(T.opaque("sign_service")))
REQ = T.rec(f"{SS}.sn_sap:SNVERIFYRequest", sec_header=T.bytes(0, 8), message=T.bytes(0, 2000))
S = dict(mode="int", spec_module="spec_sec", engine_setup=models_sec.setup, frame_check=False)

contract(f"{SS}.verify_service:VerifyService.verify", props=["C03", "C09", "C05", "C04"], shapes={"self": VS, "request": REQ},
         may_raise=["Exception", "KeyError", "TypeError", "IndexError", "AttributeError"],
         ensures={
             "decoded_the_received_bytes": "len(ghost('decoded')) == 1 and decoded_msg()[0] == request.message",
             "success_needs_one_signature_check_that_passed": "implies(result.report.value == 0, n_sig_checks() == 1 and sig_check()[3])",
             "signature_checked_over_this_message": "implies(result.report.value == 0, len(ghost('tbs_encoded')) == 1 and tbs_bytes_of_this_message()[0] is signed_data()['tbsData'] and sig_check()[0] == tbs_bytes_of_this_message()[1] and sig_check()[1] is signed_data()['signature'])",
             "under_the_key_of_the_looked_up_ticket": "implies(result.report.value == 0, len(ghost('ticket_lookups')) == 1 and looked_up_ticket() is not None and sig_check()[2] is looked_up_ticket().certificate['toBeSigned']['verifyKeyIndicator'][1])",
             "ticket_chain_verified_and_is_an_at": "implies(result.report.value == 0, len(ghost('cert_verified')) == 1 and ghost('cert_verified')[0][0] is looked_up_ticket() and ghost('cert_verified')[0][1] and len(ghost('at_checked')) == 1 and ghost('at_checked')[0][1])",
             "ticket_comes_from_the_message_signer": "implies(result.report.value == 0, ghost('ticket_lookups')[0][1] is signed_data()['signer'][1] or ghost('ticket_lookups')[0][1] == signed_data()['signer'][1])",
             "delivered_payload_is_the_signed_payload": "implies(result.report.value == 0, result.plain_message == signed_data()['tbsData']['payload']['data']['content'][1])",
             "failed_signature_is_reported": "implies(n_sig_checks() == 1 and not sig_check()[3], result.report.value == 1 and len(result.plain_message) == 0)",
             "no_plain_message_without_success": "implies(result.report.value != 0, len(result.plain_message) == 0)",
             "accepted_only_if_its_aid_is_permitted_by_the_ticket": "implies(result.report.value == 0, ticket_permits(looked_up_ticket(), signed_data()['tbsData']['headerInfo']['psid']))",
             "accepted_only_within_the_ticket_validity_period": "implies(result.report.value == 0, ticket_valid_at(looked_up_ticket(), signed_data()['tbsData']['headerInfo']['generationTime']))",
             "incompatible_protocol_only_for_fields_the_message_profile_forbids": "implies(result.report.value == 11, 'p2pcdLearningRequest' in signed_data()['tbsData']['headerInfo'] or 'missingCrlIdentifier' in signed_data()['tbsData']['headerInfo'] or signed_data()['tbsData']['headerInfo']['psid'] == 37)",
             "unknown_digest_not_accepted": "implies(len(ghost('ticket_lookups')) == 1 and looked_up_ticket() is None, result.report.value != 0)"},
         cover=["result.report.value == 0", "result.report.value == 1"],
         canary={"always_success": "result.report.value == 0"}, **S)
