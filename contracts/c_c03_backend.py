"""C03: the real PythonECDSABackend.verify_with_pk accepts only an ECDSA NIST P-256 signature in x-only form under an
uncompressed NIST P-256 key, with r, s, x, y the big-endian integers of the given octets; the elliptic-curve library
(python-ecdsa) is an opaque model."""
from pyvc.contracts import contract, T
from . import models_sec

EB = "flexstack.security.ecdsa_backend:PythonECDSABackend"
SIG = T.tuple(T.strs("ecdsaNistP256Signature", "ecdsaBrainpoolP256r1Signature", "ecdsaBrainpoolP384r1Signature"),
              T.dict(_open=True, rSig=T.tuple(T.strs("x-only", "compressed-y-0", "compressed-y-1", "fill"), T.bytes_n(32)), sSig=T.bytes_n(32)))
PK = T.tuple(T.strs("ecdsaNistP256", "ecdsaBrainpoolP256r1"), T.tuple(T.strs("uncompressedP256", "compressed-y-0", "x-only"),
                                                                        T.dict(_open=True, x=T.bytes_n(32), y=T.bytes_n(32))))
contract(f"{EB}.verify_with_pk", props=["C03", "C09"], mode="int", spec_module="spec_sec", engine_setup=models_sec.setup_ecdsa, frame_check=False,
         shapes={"self": T.obj(EB, keys=T.opaque("object")), "data": T.bytes(0, 4000), "signature": SIG, "pk": PK},
         raises={"ValueError": "signature[0] != 'ecdsaNistP256Signature' or signature[1]['rSig'][0] != 'x-only' or pk[0] != 'ecdsaNistP256' or pk[1][0] != 'uncompressedP256'"},
         ensures={"accepted_only_if_the_curve_library_accepted_this_data_signature_and_key": "implies(result, len(ghost('ec_verify')) == 1 and ghost('ec_verify')[0][5] and ghost('ec_verify')[0][0] == data)",
                  "with_r_and_s_of_the_signature": "implies(result, ghost('ec_verify')[0][1] == int.from_bytes(signature[1]['rSig'][1], 'big') and ghost('ec_verify')[0][2] == int.from_bytes(signature[1]['sSig'], 'big'))",
                  "and_the_point_of_the_given_key_on_nist_p256": "implies(result, ghost('ec_verify')[0][3] == int.from_bytes(pk[1][1]['x'], 'big') and ghost('ec_verify')[0][4] == int.from_bytes(pk[1][1]['y'], 'big') and ghost('ec_verify')[0][6] == 'NIST256p' and ghost('ec_verify')[0][7] == 'sha256')",
                  "only_nist_p256_x_only_signatures_under_uncompressed_nist_p256_keys": "implies(result, signature[0] == 'ecdsaNistP256Signature' and signature[1]['rSig'][0] == 'x-only' and pk[0] == 'ecdsaNistP256' and pk[1][0] == 'uncompressedP256')",
                  "a_signature_the_library_rejects_is_rejected": "implies(len(ghost('ec_verify')) == 1 and not ghost('ec_verify')[0][5], not result)"},
         cover=["result", "not result"], canary={"always": "result"})
