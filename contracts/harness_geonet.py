"""Harness functions: lemmas over the real functions (and over their contracts where one is registered)."""
from flexstack.geonet.position_vector import TST


def tst_antisymmetric(a: TST, b: TST) -> bool:
    return (a > b) and (b > a)


def tst_trichotomy_like(a: TST, b: TST) -> int:
    """number of relations among a>b, a==b, a<b that hold"""
    return (1 if a > b else 0) + (1 if a == b else 0) + (1 if a < b else 0)


def reported_remaining_lifetime(lt_ms_value: int) -> float:
    """what every indication reports as remaining packet lifetime (seconds) for a header lifetime of lt_ms_value ms"""
    return float(lt_ms_value // 1000)


# ---------------------------------------------------------------- round trips (lemmas over the codec contracts)
from flexstack.geonet.position_vector import LongPositionVector, ShortPositionVector
from flexstack.geonet.gn_address import GNAddress
from flexstack.geonet.basic_header import BasicHeader
from flexstack.geonet.common_header import CommonHeader
from flexstack.geonet.gbc_extended_header import GBCExtendedHeader
from flexstack.geonet.tsb_extended_header import TSBExtendedHeader
from flexstack.geonet.guc_extended_header import GUCExtendedHeader
from flexstack.geonet.ls_extended_header import LSRequestExtendedHeader, LSReplyExtendedHeader
from flexstack.btp.btp_header import BTPAHeader, BTPBHeader


def rt_lpv(h: LongPositionVector) -> LongPositionVector:
    return LongPositionVector.decode(h.encode())


def rt_spv(h: ShortPositionVector) -> ShortPositionVector:
    return ShortPositionVector.decode(h.encode())


def rt_gn_addr(h: GNAddress) -> GNAddress:
    return GNAddress.decode(h.encode())


def rt_basic(h: BasicHeader) -> BasicHeader:
    return BasicHeader.decode_from_bytes(h.encode_to_bytes())


def rt_common(h: CommonHeader) -> CommonHeader:
    return CommonHeader.decode_from_bytes(h.encode_to_bytes())


def rt_gbc(h: GBCExtendedHeader) -> GBCExtendedHeader:
    return GBCExtendedHeader.decode(h.encode())


def rt_tsb(h: TSBExtendedHeader) -> TSBExtendedHeader:
    return TSBExtendedHeader.decode(h.encode())


def rt_guc(h: GUCExtendedHeader) -> GUCExtendedHeader:
    return GUCExtendedHeader.decode(h.encode())


def rt_ls_request(h: LSRequestExtendedHeader) -> LSRequestExtendedHeader:
    return LSRequestExtendedHeader.decode(h.encode())


def rt_ls_reply(h: LSReplyExtendedHeader) -> LSReplyExtendedHeader:
    return LSReplyExtendedHeader.decode(h.encode())


def rt_btp_a(h: BTPAHeader) -> BTPAHeader:
    return BTPAHeader.decode(h.encode())


def rt_btp_b(h: BTPBHeader) -> BTPBHeader:
    return BTPBHeader.decode(h.encode())
