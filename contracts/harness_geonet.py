"""Harness functions: lemmas over the real functions (and over their contracts where one is registered)."""
from flexstack.geonet.position_vector import TST


def tst_antisymmetric(a: TST, b: TST) -> bool:
    return (a > b) and (b > a)


def tst_trichotomy_like(a: TST, b: TST) -> int:
    """number of relations among a>b, a==b, a<b that hold"""
    return (1 if a > b else 0) + (1 if a == b else 0) + (1 if a < b else 0)


def reported_remaining_lifetime(lt_ms_value: int) -> float:
    """what every indication reports as remaining packet lifetime (seconds) for a header lifetime of lt_ms_value ms"""
    return float(lt_ms_value // 1000)
