from pyvc.contracts import contract, lemma, T

LT = "flexstack.geonet.basic_header:LT"
M = "flexstack.geonet.basic_header"

contract(f"{M}:LT.set_value_in_millis", props=["C20"], mode="int", spec_module="spec_geonet",
         shapes={"self": T.rec(LT, multiplier=T.int(0, 63)), "value": T.int()},
         requires=["value >= 0"],
         ensures={
             "not_exceeding": "lt_ms(result) <= value",
             "nonzero_from_50ms": "implies(value >= 50, lt_ms(result) > 0)",
             "largest_representable": "forall(lambda m, b: implies(0 <= m <= 63 and 0 <= b <= 3 and m * LT_BASE_MS[b] <= value, m * LT_BASE_MS[b] <= lt_ms(result)))",
             "multiplier_6bit": "0 <= result.multiplier <= 63",
         },
         canary={"exceeds": "lt_ms(result) < value"},
         float_as_real=True)
