from pyvc.contracts import contract, lemma, T

LT = "flexstack.geonet.basic_header:LT"
M = "flexstack.geonet.basic_header"

contract(f"{M}:LT.set_value_in_millis", props=["C20", "C02"], mode="int", spec_module="spec_geonet",
         shapes={"self": T.rec(LT, multiplier=T.int(0, 63)), "value": T.int()},
         requires=["value >= 0"],
         ensures={
             "not_exceeding": "lt_ms(result) <= value",
             "nonzero_from_50ms": "implies(value >= 50, lt_ms(result) > 0)",
             "largest_representable": "forall(lambda m, b: implies(0 <= m <= 63 and 0 <= b <= 3 and m * LT_BASE_MS[b] <= value, m * LT_BASE_MS[b] <= lt_ms(result)))",
             "multiplier_6bit": "0 <= result.multiplier <= 63",
         },
         canary={"exceeds": "lt_ms(result) < value"},
         float_as_real=True)

LTS = T.rec(LT, multiplier=T.int(0, 63))
contract(f"{M}:LT.set_value_in_seconds", props=["C20"], mode="int", spec_module="spec_geonet",
         shapes={"self": LTS, "value": T.int()}, requires=["value >= 0"],
         ensures={"not_exceeding": "lt_ms(result) <= value * 1000",
                  "nonzero": "implies(value >= 1, lt_ms(result) > 0)",
                  "largest_representable": "forall(lambda m, b: implies(0 <= m <= 63 and 0 <= b <= 3 and m * LT_BASE_MS[b] <= value * 1000, m * LT_BASE_MS[b] <= lt_ms(result)))",
                  "valid": "lt_valid(result)"})
contract(f"{M}:LT.get_value_in_millis", props=["C20"], mode="int", spec_module="spec_geonet",
         shapes={"self": T.rec(LT)}, ensures={"decode_is_encoded_value": "result == lt_ms(self)"},
         canary={"seconds": "result == lt_ms(self) // 1000"})
contract(f"{M}:LT.get_value_in_seconds", props=["C20"], mode="int", spec_module="spec_geonet",
         shapes={"self": T.rec(LT)}, requires=["self.multiplier >= 0"],
         ensures={"floor_seconds": "result == lt_ms(self) // 1000", "never_exceeds": "result * 1000 <= lt_ms(self)"})

MIBS = T.rec("flexstack.geonet.mib:MIB",
             itsGnLocalGnAddr=T.rec("flexstack.geonet.gn_address:GNAddress", mid=T.rec("flexstack.geonet.gn_address:MID", mid=T.bytes_n(6))),
             itsGnBeaconServiceMaxJitter=T.opt(T.float()))
BH_POST = {"version": "result.version == 1", "nh_common": "result.nh.value == 1", "reserved": "result.reserved == 0",
           "rhl": "result.rhl == rhl", "lt_valid": "lt_valid(result.lt)"}
contract(f"{M}:BasicHeader.initialize_with_mib_request_and_rhl", props=["C20", "C02"], mode="int", spec_module="spec_geonet",
         shapes={"mib": MIBS, "max_packet_lifetime": T.opt(T.float()), "rhl": T.int()},
         requires=["mib.itsGnDefaultPacketLifetime >= 0", "max_packet_lifetime is None or max_packet_lifetime >= 0"],
         ensures=dict(BH_POST, **{
             "lifetime_is_best": "lt_ms(result.lt) == best_ms(requested_ms_int(max_packet_lifetime, mib.itsGnDefaultPacketLifetime))"}),
         float_as_real=True)
contract(f"{M}:BasicHeader.initialize_with_mib_and_rhl", props=["C20", "C02"], mode="int", spec_module="spec_geonet",
         shapes={"mib": MIBS, "rhl": T.int()}, requires=["mib.itsGnDefaultPacketLifetime >= 0"],
         ensures=dict(BH_POST, **{"lifetime_is_best": "lt_ms(result.lt) == best_ms(mib.itsGnDefaultPacketLifetime * 1000)"}))

contract("harness_spec:best_ms_value", props=["C20"], mode="int", spec_module="spec_geonet", shapes={"v": T.int(0)},
         ensures={"never_exceeds": "result <= v", "nonzero_from_50": "implies(v >= 50, result > 0)",
                  "representable": "exists_code(result)",
                  "largest": "forall(lambda m, b: implies(0 <= m <= 63 and 0 <= b <= 3 and m * LT_BASE_MS[b] <= v, m * LT_BASE_MS[b] <= result))"},
         canary={"identity": "result == v"})
contract("harness_geonet:reported_remaining_lifetime", props=["C20"], mode="int", spec_module="spec_geonet",
         shapes={"lt_ms_value": T.int(0)}, ensures={"never_exceeds_header_lifetime": "result * 1000 <= lt_ms_value"},
         float_as_real=True)
