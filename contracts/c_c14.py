"""C14: notification cadence and subscription bookkeeping of the real LDMService."""
from pyvc.contracts import contract, T
from pyvc import models as _m

LDM = "flexstack.facilities.local_dynamic_map"
SV = f"{LDM}.ldm_service:LDMService"
CLS = f"{LDM}.ldm_classes"
TS = T.rec(f"{CLS}:TimestampIts", timestamp_its=T.int(0, 4398046511103))
SREQ = T.rec(f"{CLS}:SubscribeDataobjectsReq", application_id=T.int(0, 2 ** 32), data_object_type=T.tuple(T.int(0, 20)), priority=T.opt(T.int(0, 255)),
             filter=T.none, notify_time=T.opt(TS), multiplicity=T.opt(T.int(0, 255)), order=T.none)
SUB = T.rec(f"{CLS}:SubscriptionInfo", subscription_request=SREQ, callback=T.callback)


def setup(e):
    from pyvc.shapes import Maker

    def fresh_ts(e2, st):
        return Maker(e2).make(st, TS, e2.fresh("last_checked"))

    def initial(e2, st, o, key):
        """content of the last-notification map at a subscription the path did not touch: fixed functions of the key"""
        import z3
        from pyvc.values import Rec
        ts_cls = e2.repo.class_by_qual(f"{CLS}:TimestampIts")
        flat = _m.flatten_terms(e2, key)
        tag = f"{o.ident}@{_m._map_epoch(st, o)}"
        has = z3.Function(f"last.has0[{tag}]", *[t.sort() for t in flat], z3.BoolSort())
        val = z3.Function(f"last.ts0[{tag}]", *[t.sort() for t in flat], z3.IntSort())
        return has(*flat), Rec(ts_cls, {"timestamp_its": val(*flat)})
    e.opaque_handlers["lastmap"] = _m.make_keyed_map_handler(fresh_ts, initial=initial)


SVC = T.obj(SV, ldm_maintenance=T.opaque("object"), data_provider_its_aid=T.opaque("object"), data_consumer_its_aid=T.opaque("object"),
            subscriptions=T.opaque("object"), last_checked_subscriptions_time=T.keymap("lastmap", SUB, TS), _lock=T.opaque("rlock"))
S = dict(mode="int", spec_module="spec_ldm", props=["C14"], engine_setup=setup, frame_check=False, float_as_real=True)
_M = "self.last_checked_subscriptions_time"

contract(f"{SV}.process_notifications", shapes={"self": SVC, "subscription": SUB, "valid_search_result": T.tuple(T.opaque("object"))},
         requires=["now() >= 1072915200"], modifies=[_M],
         ensures={
             "notified_iff_the_interval_has_passed_since_the_previous_notification": "(len(ghost('callbacks')) == 1) == interval_passed(self, subscription)",
             "at_most_one_notification": "len(ghost('callbacks')) <= 1",
             "the_callback_of_this_subscription_gets_exactly_the_given_objects": "implies(len(ghost('callbacks')) == 1, ghost('callbacks')[0][0] is subscription.callback and ghost('callbacks')[0][1].data_objects == valid_search_result and ghost('callbacks')[0][1].application_id == subscription.subscription_request.application_id and ghost('callbacks')[0][1].result.value == 0)",
             "notification_time_recorded_as_the_current_time": "implies(len(ghost('callbacks')) == 1, map_has(" + _M + ", subscription) and map_get(" + _M + ", subscription).timestamp_its == its_now())",
             "no_notification_leaves_the_previous_time": "implies(len(ghost('callbacks')) == 0 and old(map_has(" + _M + ", subscription)), map_get(" + _M + ", subscription).timestamp_its == old(map_get(" + _M + ", subscription).timestamp_its))",
             "other_subscriptions_untouched": "implies(old(map_key0(" + _M + ")) != subscription, map_has(" + _M + ", old(map_key0(" + _M + "))) == old(map_has(" + _M + ", map_key0(" + _M + "))) and implies(old(map_has(" + _M + ", map_key0(" + _M + "))), map_get(" + _M + ", old(map_key0(" + _M + "))).timestamp_its == old(map_get(" + _M + ", map_key0(" + _M + ")).timestamp_its)))"},
         cover=["len(ghost('callbacks')) == 1", "len(ghost('callbacks')) == 0"], canary={"always_notified": "len(ghost('callbacks')) == 1"}, **S)


# ------------------------------------------------------------------------------------------- attendance
def _pn_ghost(e, st, env):
    from pyvc.values import TupleV
    return st.ghost_append("notify_calls", TupleV([env["subscription"], env["valid_search_result"]]))


from pyvc.contracts import REGISTRY as _R
_R[f"{SV}.process_notifications"].ghost_effect = _pn_ghost


def setup_attend(e):
    setup(e)
    from pyvc.values import TupleV, Opaque, NONE
    import z3

    def h_containers(e2, st, o, name, args, kwargs):
        e2.used_assumptions.add("the data store's search() returns some tuple of 0..2 stored records (its own contract is C13's)")
        if name == "search":
            for n in range(3):
                res = TupleV([Opaque("object", _m._ident(e2, "object", f"found{k}")) for k in range(n)])
                yield st.ghost_append("searches", TupleV([args[0], res])), res
        else:
            raise NotImplementedError(name)

    def h_maint(e2, st, o, name, args, kwargs):
        raise NotImplementedError(name)
    e.opaque_handlers.update({"containers": h_containers, "maintenance": h_maint})
    orig = e.opaque_attr

    def attr(st, o, name):
        if o.typ == "maintenance" and name == "data_containers":
            return Opaque("containers", o.ident)
        return orig(st, o, name)
    e.opaque_attr = attr


import os as _os
SUBS = T.oneof(T.list(), T.list(SUB), T.list(SUB, SUB))
SVC_A = T.obj(SV, ldm_maintenance=T.opaque("maintenance"), data_provider_its_aid=T.symset(), data_consumer_its_aid=T.symset(),
              subscriptions=SUBS, last_checked_subscriptions_time=T.keymap("lastmap", SUB, TS), _lock=T.opaque("rlock"))
A = dict(S, engine_setup=setup_attend)
contract(f"{SV}.remove_subscription", bound="0..2 subscriptions", shapes={"self": SVC_A, "subscription": SUB}, modifies=["self.subscriptions", _M],
         ensures={"removed_from_the_list": "subscription not in self.subscriptions",
                  "its_cadence_state_is_dropped": "not map_has(" + _M + ", subscription)",
                  "other_subscriptions_stay_in_order": "[s for s in old_subscriptions(self) if s != subscription][:2] == list(self.subscriptions) or count_of(old_subscriptions(self), subscription) > 1"},
         **A)

contract(f"{SV}.search_data", shapes={"self": SVC_A, "subscription": SUB}, returns=T.oneof(T.tuple(), T.tuple(T.opaque("object")), T.tuple(T.opaque("object"), T.opaque("object"))),
         ensures={"one_search_with_the_subscriptions_own_selection": "len(ghost('searches')) == 1 and ghost('searches')[0][1] == result and request_of(ghost('searches')[0][0], subscription)"},
         **A)
contract(f"{SV}.attend_subscriptions", bound="0..2 subscriptions, searches returning 0..2 objects", shapes={"self": SVC_A}, requires=["now() >= 1072915200"], modifies=["self.subscriptions", _M], inline=[f"{SV}.search_data", f"{SV}.get_data_consumer_its_aid", f"{SV}.remove_subscription"],
         ensures={"every_subscription_is_searched_once_in_order": "len(ghost('searches')) == old(len(self.subscriptions)) and all(request_of(ghost('searches')[i][0], old_subscriptions(self)[i]) for i in range(len(ghost('searches'))))",
                  "notification_attempted_exactly_for_registered_consumers_with_enough_matching_objects": "len(ghost('notify_calls')) == n_due(self)",
                  "first_due_subscription_gets_its_own_search_result": "implies(old(len(self.subscriptions)) > 0 and due(self, 0), ghost('notify_calls')[0][0] == old_subscriptions(self)[0] and ghost('notify_calls')[0][1] == ghost('searches')[0][1])",
                  "second_due_subscription_gets_its_own_search_result": "implies(old(len(self.subscriptions)) > 1 and due(self, 1), ghost('notify_calls')[n_due(self) - 1][0] == old_subscriptions(self)[1] and ghost('notify_calls')[n_due(self) - 1][1] == ghost('searches')[1][1])"},
         cover=["len(ghost('notify_calls')) == 2", "len(ghost('notify_calls')) == 0"], **A)

# ------------------------------------------------------------------------------------------- reactive attendance (on add)
SVR = f"{LDM}.ldm_service_reactive:LDMServiceReactive"


def _attend_ghost(e, st, env):
    from pyvc.values import TupleV
    return st.ghost_append("attend_calls", TupleV([]))


_R[f"{SV}.attend_subscriptions"].ghost_effect = _attend_ghost
_R[f"{SV}.attend_subscriptions"].field_shapes = {"self.subscriptions": T.opaque("object")}     # post-state at call sites: some list
def setup_reactive(e):
    setup_attend(e)
    from pyvc.values import Opaque

    def h_maint(e2, st, o, name, args, kwargs):
        if name != "add_provider_data":
            raise NotImplementedError(name)
        e2.used_assumptions.add("LDMMaintenance.add_provider_data seen from the reactive service: returns some value (C12 covers it)")
        yield st, Opaque("object", _m._ident(e2, "object", "index"))
    e.opaque_handlers["maintenance"] = h_maint


SVC_R = T.obj(SVR, ldm_maintenance=T.opaque("maintenance"), data_provider_its_aid=T.symset(), data_consumer_its_aid=T.symset(),
              subscriptions=SUBS, last_checked_subscriptions_time=T.keymap("lastmap", SUB, TS), _lock=T.opaque("rlock"),
              lock=T.opaque("lock"), last_subscription_time=T.float())
contract(f"{SVR}.add_provider_data", shapes={"self": SVC_R, "data": T.opaque("object")}, returns=T.opaque("object"),
         requires=["now() >= 1072915200"], modifies=["self.subscriptions", _M, "self.last_subscription_time"],
         ensures={"subscriptions_attended_exactly_when_half_a_second_has_passed_since_the_last_attendance":
                  "len(ghost('attend_calls')) == (1 if ghost('mono')[0] - old(self.last_subscription_time) >= 0.5 else 0)",
                  "an_add_that_does_not_attend_leaves_the_time_of_the_last_attendance":
                  "implies(len(ghost('attend_calls')) == 0, self.last_subscription_time == old(self.last_subscription_time))",
                  "an_attendance_is_timestamped_no_earlier_than_it_was_decided":
                  "implies(len(ghost('attend_calls')) == 1, self.last_subscription_time >= ghost('mono')[0])"},
         cover=["len(ghost('attend_calls')) == 1", "len(ghost('attend_calls')) == 0"],
         canary={"always_attends": "len(ghost('attend_calls')) == 1"},
         trusted=["LDMService.attend_subscriptions at the call site of the reactive add: its own contract (above) is applied; LDMMaintenance.add_provider_data is an unconstrained call on an opaque object (C12 covers it)"],
         **dict(S, engine_setup=setup_reactive))

contract(f"{SV}.delete_subscription", bound="0..2 subscriptions", shapes={"self": SVC_A, "subscription_id": T.int()}, modifies=["self.subscriptions", _M],
         inline=[f"{SV}.remove_subscription"],
         ensures={"no_subscription_with_this_id_remains": "all(hash(s.subscription_request) != subscription_id for s in self.subscriptions)",
                  "subscriptions_with_other_ids_stay_in_order": "[s for s in old_subscriptions(self) if hash(s.subscription_request) != subscription_id] == [s for s in self.subscriptions if hash(s.subscription_request) != subscription_id]",
                  "acknowledged_iff_some_subscription_had_this_id": "result == any(hash(s.subscription_request) == subscription_id for s in old_subscriptions(self))"},
         cover=["result", "not result"], **A)
contract(f"{SV}.store_new_subscription_petition", bound="0..2 existing subscriptions", shapes={"self": SVC_A, "subscription_request": SREQ, "callback": T.callback},
         requires=["now() >= 1072915200"], modifies=["self.subscriptions", _M],
         ensures={"appended_with_its_callback": "len(self.subscriptions) == old(len(self.subscriptions)) + 1 and self.subscriptions[len(self.subscriptions) - 1].subscription_request == subscription_request and self.subscriptions[len(self.subscriptions) - 1].callback is callback",
                  "existing_subscriptions_stay_in_order": "list(self.subscriptions)[:old(len(self.subscriptions))] == old_subscriptions(self)",
                  "first_notification_not_before_one_interval_after_subscribing": "map_has(" + _M + ", self.subscriptions[len(self.subscriptions) - 1]) and map_get(" + _M + ", self.subscriptions[len(self.subscriptions) - 1]).timestamp_its == its_now()",
                  "identifier_is_the_hash_of_the_request": "result == hash(subscription_request)"},
         **A)

# ------------------------------------------------------------------------------------------- IF.LDM.4 validation
IF4 = f"{LDM}.if_ldm_4:InterfaceLDM4"
SREQ_ANY = T.rec(f"{CLS}:SubscribeDataobjectsReq", application_id=T.int(), data_object_type=T.oneof(T.tuple(), T.tuple(T.int()), T.tuple(T.int(), T.int())),
                 priority=T.opt(T.int()), filter=T.none, notify_time=T.opt(T.rec(f"{CLS}:TimestampIts", timestamp_its=T.int())), multiplicity=T.opt(T.int()), order=T.none)
IF4S = T.obj(IF4, logging=T.opaque("logger"), ldm_service=SVC_A)
_REG = "set_has(self.ldm_service.data_consumer_its_aid, subscribe_data_consumer.application_id)"
_TYPES = "all(1 <= t <= 21 for t in subscribe_data_consumer.data_object_type)"
_PRIO = "(subscribe_data_consumer.priority is None or 0 <= subscribe_data_consumer.priority <= 255)"
_NT = "(subscribe_data_consumer.notify_time is None or 0 <= subscribe_data_consumer.notify_time.timestamp_its <= 4398046511103)"
_MULT = "(subscribe_data_consumer.multiplicity is None or 0 <= subscribe_data_consumer.multiplicity <= 255)"
contract(f"{IF4}.validate_subscribe_data_consumer", bound="0..2 requested data object types", shapes={"self": IF4S, "subscribe_data_consumer": SREQ_ANY},
         inline=[f"{SV}.get_data_consumer_its_aid"],
         ensures={"unknown_consumer_refused": f"implies(not {_REG}, result is not None and result.result.value == 1)",
                  "unknown_data_object_type_refused": f"implies({_REG} and not {_TYPES}, result is not None and result.result.value == 2)",
                  "priority_out_of_range_refused": f"implies({_REG} and {_TYPES} and not {_PRIO}, result is not None and result.result.value == 3)",
                  "notification_interval_out_of_range_refused": f"implies({_REG} and {_TYPES} and {_PRIO} and not {_NT}, result is not None and result.result.value == 5)",
                  "multiplicity_out_of_range_refused": f"implies({_REG} and {_TYPES} and {_PRIO} and {_NT} and not {_MULT}, result is not None and result.result.value == 6)",
                  "valid_request_accepted": f"implies({_REG} and {_TYPES} and {_PRIO} and {_NT} and {_MULT}, result is None)",
                  "a_refusal_carries_no_subscription": "implies(result is not None, result.subscription_id == 0 and result.application_id == subscribe_data_consumer.application_id)"},
         cover=["result is None", "result is not None"], **A)

# ------------------------------------------------------------------------------------------- ordering of results
def orec():
    return T.dict(_open=True, dataObject=T.dict(cam=T.dict(a=T.int(), b=T.int())))


ORD = lambda attr, d: T.rec(f"{CLS}:OrderTupleValue", attribute=T.const(attr), ordering_direction=T.enum(f"{CLS}:OrderingDirection", only=[d]))
ORDERS = [T.tuple(ORD("a", d)) for d in ("ASCENDING", "DESCENDING")] + \
         [T.tuple(ORD("a", d1), ORD("b", d2)) for d1 in ("ASCENDING", "DESCENDING") for d2 in ("ASCENDING", "DESCENDING")]
contract(f"{SV}.order_search_results", bound="2..3 results, 1..2 order attributes", shapes={"self": SVC_A, "search_results": T.oneof(T.tuple(orec(), orec()), T.tuple(orec(), orec(), orec())), "orders": T.oneof(*ORDERS)},
         props=["C14", "C13"],
         ensures={"one_sequence_with_the_same_objects": "len(result) == 1 and len(result[0]) == len(search_results) and all(any(r is s for r in result[0]) for s in search_results)",
                  "adjacent_results_follow_the_requested_attributes_and_directions": "all(in_requested_order(result[0][i], result[0][i + 1], orders) for i in range(len(result[0]) - 1))"},
         **{k: v for k, v in A.items() if k != "props"})
