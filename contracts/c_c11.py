"""C11: report -> message field mappings stay inside the ASN.1 constraints, keep the resolution, use the named codes."""
from pyvc.contracts import contract, T
from .c_c10 import TPV

S = dict(mode="int", spec_module="spec_msg", props=["C11"], float_as_real=True, frame_check=False)
H = "harness_msg"


def _clauses(root, hf, heading_key, heading_conf_key):
    P = f"result['{root}']['{root}Parameters']"
    RP = f"{P}['basicContainer']['referencePosition']"
    HF = f"{P}{hf}"
    return {
        "latitude": f"within({RP}['latitude'], LATITUDE) and implies('lat' in tpv, scaled(tpv['lat'], 10000000, {RP}['latitude']))",
        "longitude": f"within({RP}['longitude'], LONGITUDE) and implies('lon' in tpv, scaled(tpv['lon'], 10000000, {RP}['longitude']))",
        "altitude_in_constraint": f"within({RP}['altitude']['altitudeValue'], ALTITUDE_VALUE)",
        "altitude_in_range_to_resolution": f"implies('altHAE' in tpv and -1000 < tpv['altHAE'] < 8000, scaled(tpv['altHAE'], 100, {RP}['altitude']['altitudeValue']))",
        "altitude_out_of_range_codes": f"implies('altHAE' in tpv and tpv['altHAE'] <= -1000.01, {RP}['altitude']['altitudeValue'] == -100000) and implies('altHAE' in tpv and tpv['altHAE'] >= 8000, {RP}['altitude']['altitudeValue'] == 800000)",
        "altitude_unavailable_when_absent": f"implies('altHAE' not in tpv, {RP}['altitude']['altitudeValue'] == 800001)",
        "confidence_ellipse_in_constraint": f"within({RP}['positionConfidenceEllipse']['semiMajorAxisLength'], SEMI_AXIS_LENGTH) and within({RP}['positionConfidenceEllipse']['semiMinorAxisLength'], SEMI_AXIS_LENGTH)",
        "heading_value": f"within({HF}['heading']['{heading_key}'], HEADING_VALUE) and implies('track' in tpv, scaled(tpv['track'], 10, {HF}['heading']['{heading_key}']))",
        "heading_confidence_in_constraint": f"within({HF}['heading']['{heading_conf_key}'], HEADING_CONFIDENCE)",
        "speed_value": f"within({HF}['speed']['speedValue'], SPEED_VALUE) and implies('speed' in tpv and tpv['speed'] <= 163.81, scaled(tpv['speed'], 100, {HF}['speed']['speedValue'])) and implies('speed' in tpv and tpv['speed'] > 163.82, {HF}['speed']['speedValue'] == 16382)",
        "unavailable_when_absent": f"implies('speed' not in tpv, {HF}['speed']['speedValue'] == 16383) and implies('track' not in tpv, {HF}['heading']['{heading_key}'] == 3601)",
    }


contract(f"{H}:cam_from_report", shapes={"tpv": TPV}, ensures=_clauses("cam", "['highFrequencyContainer'][1]", "headingValue", "headingConfidence"), **S)
contract(f"{H}:vam_from_report", shapes={"tpv": TPV}, ensures=_clauses("vam", "['vruHighFrequencyContainer']", "value", "confidence"), **S)
contract(f"{H}:reconstruct_generation_time", shapes={"gdt_msec": T.int(0, 65535), "utc_now_ms": T.int(1072915200000, 10 ** 14)},
         ensures={"absolute_time_of_a_message_younger_than_65s": "forall(lambda gen: implies(gen <= utc_now_ms < gen + 65536 and gdt_msec == (gen - 1072915200000 + 5000) % 65536 and gen >= 1072915200000, result == gen))"},
         **S)

# ---------------------------------------------------------------- path history (BOUNDED: histories of 1 and 2 points)
from .c_c10 import CTM, CT, TPV as _TPV, setup as _setup10
import copy as _copy
_PT = T.tuple(T.float(-90, 90), T.float(-180, 180), T.int(0))
PH1 = _copy.copy(CTM)
PH1.fields = dict(CTM.fields, _path_history=T.oneof(T.list(_PT), T.list(_PT, _PT)))
from pyvc.contracts import REGISTRY as _R
_old = _R.pop(f"{CT}:CAMTransmissionManagement._get_path_history")
contract(f"{CT}:CAMTransmissionManagement._get_path_history", props=["C11"], bound="path history of 1..2 points",
         shapes={"self": PH1, "current_tpv": _TPV}, returns=T.opaque("any_list"),
         requires=["now() >= 0"], mode="int", spec_module="spec_msg", float_as_real=True, frame_check=False, engine_setup=_setup10,
         callsite_ensures=[],
         ensures={"every_point_inside_the_delta_constraints": "all_points_ok(result)"},
         trusted=["BOUNDED: _get_path_history is explored for path histories of 1 and 2 points (each point is processed independently by the loop body)"])

# ---------------------------------------------------------------- reception: absolute generation time handed upwards
CR = "flexstack.facilities.ca_basic_service.cam_reception_management:CAMReceptionManagement"


def setup_cam_rx(e):
    _setup10(e)
    from pyvc.shapes import Maker
    from pyvc.values import RaiseV, TupleV, NONE

    def h_rx_coder(e2, st, o, name, args, kwargs):
        e2.used_assumptions.add("CAM coder on reception: decode returns some CAM dictionary or raises")
        if name == "decode":
            s1, d = Maker(e2).make(st, T.dict(_open=True, header=T.dict(_open=True, stationId=T.int(0, 2 ** 32 - 1)),
                                              cam=T.dict(_open=True, generationDeltaTime=T.int(0, 65535))), e2.fresh("decoded_cam"))
            yield s1.ghost_append("decoded", TupleV([args[0], d])), d
            yield st, RaiseV(e2.exc("Exception", "decode error"))
        else:
            raise NotImplementedError(name)

    def h_cam_ldm(e2, st, o, name, args, kwargs):
        yield st.ghost_append("ldm_adds", args[0]), NONE
    e.opaque_handlers.update({"cam_rx_coder": h_rx_coder, "cam_rx_ldm": h_cam_ldm})
    orig = e.opaque_attr

    def attr(st, o, name):
        if o.typ == "btp_indication" and name == "data":
            return o.data["data"]
        return orig(st, o, name)
    e.opaque_attr = attr


contract(f"{CR}.reception_callback", props=["C11", "C04"], mode="int", spec_module="spec_msg", float_as_real=True, frame_check=False,
         engine_setup=setup_cam_rx, requires=["now() >= 1072915200"],
         shapes={"self": T.obj(CR, logging=T.opaque("logger"), cam_coder=T.opaque("cam_rx_coder"), btp_router=T.opaque("btp_router"),
                               ca_basic_service_ldm=T.opt(T.opaque("cam_rx_ldm")), _application_callbacks=T.oneof(T.list(), T.list(T.callback))),
                 "btp_indication": T.opaque("btp_indication", data=T.bytes(0, 2000))},
         inline=[f"{CT}:GenerationDeltaTime.as_timestamp_in_certain_point"],
         ensures={"an_undecodable_payload_is_discarded_without_raising": "implies(len(ghost('decoded')) == 0, len(ghost('ldm_adds')) == 0 and len(ghost('callbacks')) == 0)",
                  "absolute_generation_time_reconstructed_against_the_reception_instant_in_ms": "implies(len(ghost('decoded')) == 1, ghost('decoded')[0][1]['utc_timestamp'] == reconstructed(ghost('decoded')[0][1]['cam']['generationDeltaTime'], int(now() * 1000)))",
                  "stored_and_handed_to_every_application_callback": "implies(len(ghost('decoded')) == 1, (self.ca_basic_service_ldm is None or (len(ghost('ldm_adds')) == 1 and ghost('ldm_adds')[0] is ghost('decoded')[0][1])) and len(ghost('callbacks')) == len(self._application_callbacks))"},
         cover=["len(ghost('decoded')) == 1"])

# ---------------------------------------------------------------- emergency-vehicle DENM: event position from the report
EV = "flexstack.applications.road_hazard_signalling_service.emergency_vehicle_approaching_service:EmergencyVehicleApproachingService"


def setup_eva(e):
    _setup10(e)
    from pyvc.values import NONE, TupleV, Opaque

    def h_dtm(e2, st, o, name, args, kwargs):
        if name == "request_denm_sending":
            yield st.ghost_append("den_requests", args[0]), NONE
        else:
            raise NotImplementedError(name)
    e.opaque_handlers["den_tx"] = h_dtm
    orig = e.opaque_attr

    def attr(st, o, name):
        if o.typ == "den_service" and name == "denm_transmission_management":
            return Opaque("den_tx", o.ident)
        return orig(st, o, name)
    e.opaque_attr = attr


EVPOS2 = T.dict(latitude=T.int(-900000000, 900000001), longitude=T.int(-1800000000, 1800000001),
                positionConfidenceEllipse=T.opaque("object"), altitude=T.dict(altitudeValue=T.int(-100000, 800001), altitudeConfidence=T.opaque("object")))
EVTPV = T.dict(lat=(T.float(-90, 90), "optional"), lon=(T.float(-180, 180), "optional"), altHAE=(T.float(-20000, 20000), "optional"))
contract(f"{EV}.trigger_denm_sending", props=["C11", "C17"], mode="int", spec_module="spec_msg", float_as_real=True, frame_check=False, engine_setup=setup_eva,
         shapes={"self": T.obj(EV, den_service=T.opaque("den_service"), denm_duration=T.int(0, 60000), denm_interval=T.int(1, 10000),
                               priority_level=T.opaque("object"), detection_time=T.int(0), event_position=EVPOS2), "tpv": EVTPV},
         assumed=False,
         ensures={"event_position_is_the_reported_position": "implies('lat' in tpv, self.event_position['latitude'] == int(tpv['lat'] * 10000000)) and implies('lon' in tpv, self.event_position['longitude'] == int(tpv['lon'] * 10000000))",
                  "absent_fields_keep_the_previous_value": "implies('lat' not in tpv, self.event_position['latitude'] == old(self.event_position['latitude'])) and implies('lon' not in tpv, self.event_position['longitude'] == old(self.event_position['longitude']))",
                  "altitude_inside_altitude_value_and_within_one_centimetre": "implies('altHAE' in tpv, -100000 <= self.event_position['altitude']['altitudeValue'] <= 800000 and implies(-1000 < tpv['altHAE'] < 8000, self.event_position['altitude']['altitudeValue'] == int(tpv['altHAE'] * 100)))",
                  "one_request_to_the_den_service": "len(ghost('den_requests')) == 1"})

# ---------------------------------------------------------------- VAM reception: time reconstruction and hand-over to clustering
VR = "flexstack.facilities.vru_awareness_service.vam_reception_management:VAMReceptionManagement"


def setup_vam_rx(e):
    setup_cam_rx(e)
    from pyvc.shapes import Maker
    from pyvc.values import RaiseV, TupleV, NONE

    def h_rx_coder(e2, st, o, name, args, kwargs):
        if name == "decode":
            s1, d = Maker(e2).make(st, T.dict(_open=True, header=T.dict(_open=True, stationId=T.int(0, 2 ** 32 - 1)),
                                              vam=T.dict(_open=True, generationDeltaTime=T.int(0, 65535))), e2.fresh("decoded_vam"))
            yield s1.ghost_append("decoded", TupleV([args[0], d])), d
            yield st, RaiseV(e2.exc("Exception", "decode error"))
        else:
            raise NotImplementedError(name)

    def h_cluster(e2, st, o, name, args, kwargs):
        if name == "on_received_vam":
            yield st.ghost_append("cluster_inputs", args[0]), NONE
        else:
            raise NotImplementedError(name)
    e.opaque_handlers.update({"vam_rx_coder": h_rx_coder, "cluster_mgr": h_cluster})


contract(f"{VR}.reception_callback", props=["C11", "C18"], mode="int", spec_module="spec_msg", float_as_real=True, frame_check=False,
         engine_setup=setup_vam_rx, requires=["now() >= 1072915200"], may_raise=["Exception"],
         shapes={"self": T.obj(VR, logging=T.opaque("logger"), vam_coder=T.opaque("vam_rx_coder"), btp_router=T.opaque("btp_router"),
                               vru_basic_service_ldm=T.opt(T.opaque("cam_rx_ldm")), clustering_manager=T.opt(T.opaque("cluster_mgr"))),
                 "btp_indication": T.opaque("btp_indication", data=T.bytes(0, 2000))},
         inline=[f"{CT}:GenerationDeltaTime.as_timestamp_in_certain_point"],
         ensures={"absolute_generation_time_reconstructed_against_the_reception_instant_in_ms": "implies(len(ghost('decoded')) == 1, ghost('decoded')[0][1]['utc_timestamp'] == reconstructed(ghost('decoded')[0][1]['vam']['generationDeltaTime'], int(now() * 1000)))",
                  "every_decoded_vam_reaches_the_clustering_manager_whatever_the_ldm_configuration": "implies(len(ghost('decoded')) == 1 and self.clustering_manager is not None, len(ghost('cluster_inputs')) == 1 and ghost('cluster_inputs')[0] is ghost('decoded')[0][1])",
                  "and_the_ldm_when_there_is_one": "implies(len(ghost('decoded')) == 1 and self.vru_basic_service_ldm is not None, len(ghost('ldm_adds')) == 1 and ghost('ldm_adds')[0] is ghost('decoded')[0][1])"},
         cover=["len(ghost('cluster_inputs')) == 1"])
