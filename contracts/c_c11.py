"""C11: report -> message field mappings stay inside the ASN.1 constraints, keep the resolution, use the named codes."""
from pyvc.contracts import contract, T
from .c_c10 import TPV

S = dict(mode="int", spec_module="spec_msg", props=["C11"], float_as_real=True, frame_check=False)
H = "harness_msg"


def _clauses(root, hf, heading_key, heading_conf_key):
    P = f"result['{root}']['{root}Parameters']"
    RP = f"{P}['basicContainer']['referencePosition']"
    HF = f"{P}{hf}"
    return {
        "latitude": f"within({RP}['latitude'], LATITUDE) and implies('lat' in tpv, scaled(tpv['lat'], 10000000, {RP}['latitude']))",
        "longitude": f"within({RP}['longitude'], LONGITUDE) and implies('lon' in tpv, scaled(tpv['lon'], 10000000, {RP}['longitude']))",
        "altitude_in_constraint": f"within({RP}['altitude']['altitudeValue'], ALTITUDE_VALUE)",
        "altitude_in_range_to_resolution": f"implies('altHAE' in tpv and -1000 < tpv['altHAE'] < 8000, scaled(tpv['altHAE'], 100, {RP}['altitude']['altitudeValue']))",
        "altitude_out_of_range_codes": f"implies('altHAE' in tpv and tpv['altHAE'] <= -1000.01, {RP}['altitude']['altitudeValue'] == -100000) and implies('altHAE' in tpv and tpv['altHAE'] >= 8000, {RP}['altitude']['altitudeValue'] == 800000)",
        "altitude_unavailable_when_absent": f"implies('altHAE' not in tpv, {RP}['altitude']['altitudeValue'] == 800001)",
        "confidence_ellipse_in_constraint": f"within({RP}['positionConfidenceEllipse']['semiMajorAxisLength'], SEMI_AXIS_LENGTH) and within({RP}['positionConfidenceEllipse']['semiMinorAxisLength'], SEMI_AXIS_LENGTH)",
        "heading_value": f"within({HF}['heading']['{heading_key}'], HEADING_VALUE) and implies('track' in tpv, scaled(tpv['track'], 10, {HF}['heading']['{heading_key}']))",
        "heading_confidence_in_constraint": f"within({HF}['heading']['{heading_conf_key}'], HEADING_CONFIDENCE)",
        "speed_value": f"within({HF}['speed']['speedValue'], SPEED_VALUE) and implies('speed' in tpv and tpv['speed'] <= 163.81, scaled(tpv['speed'], 100, {HF}['speed']['speedValue'])) and implies('speed' in tpv and tpv['speed'] > 163.82, {HF}['speed']['speedValue'] == 16382)",
        "unavailable_when_absent": f"implies('speed' not in tpv, {HF}['speed']['speedValue'] == 16383) and implies('track' not in tpv, {HF}['heading']['{heading_key}'] == 3601)",
    }


contract(f"{H}:cam_from_report", shapes={"tpv": TPV}, ensures=_clauses("cam", "['highFrequencyContainer'][1]", "headingValue", "headingConfidence"), **S)
contract(f"{H}:vam_from_report", shapes={"tpv": TPV}, ensures=_clauses("vam", "['vruHighFrequencyContainer']", "value", "confidence"), **S)
contract(f"{H}:reconstruct_generation_time", shapes={"gdt_msec": T.int(0, 65535), "utc_now_ms": T.int(1072915200000, 10 ** 14)},
         ensures={"absolute_time_of_a_message_younger_than_65s": "forall(lambda gen: implies(gen <= utc_now_ms < gen + 65536 and gdt_msec == (gen - 1072915200000 + 5000) % 65536 and gen >= 1072915200000, result == gen))"},
         **S)

# ---------------------------------------------------------------- path history (BOUNDED: histories of 1 and 2 points)
from .c_c10 import CTM, CT, TPV as _TPV, setup as _setup10
import copy as _copy
_PT = T.tuple(T.float(-90, 90), T.float(-180, 180), T.int(0))
PH1 = _copy.copy(CTM)
PH1.fields = dict(CTM.fields, _path_history=T.oneof(T.list(_PT), T.list(_PT, _PT)))
from pyvc.contracts import REGISTRY as _R
_old = _R.pop(f"{CT}:CAMTransmissionManagement._get_path_history")
contract(f"{CT}:CAMTransmissionManagement._get_path_history", props=["C11"], bound="path history of 1..2 points",
         shapes={"self": PH1, "current_tpv": _TPV}, returns=T.opaque("any_list"),
         requires=["now() >= 0"], mode="int", spec_module="spec_msg", float_as_real=True, frame_check=False, engine_setup=_setup10,
         callsite_ensures=[],
         ensures={"every_point_inside_the_delta_constraints": "all_points_ok(result)"},
         trusted=["BOUNDED: _get_path_history is explored for path histories of 1 and 2 points (each point is processed independently by the loop body)"])
