"""C17 lemma: two events originated by one station get different action-id sequence numbers."""
from flexstack.facilities.decentralized_environmental_notification_service.denm_transmission_management import \
    DENMTransmissionManagement


def two_events(m: DENMTransmissionManagement):
    first = m._next_action_sequence_number()
    second = m._next_action_sequence_number()
    return (first, second)
