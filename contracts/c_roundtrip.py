"""C02 / C01: decode(encode(h)) == h for every valid header, as lemmas over the codec contracts (callee bodies are
not consulted: the harness functions call the real classes, whose contracts are used at the call sites)."""
from pyvc.contracts import contract, T
from .shapes_geonet import *

S = dict(mode="bv", spec_module="spec_geonet", props=["C02", "C01"])
H = "harness_geonet"
contract(f"{H}:rt_lpv", shapes={"h": LPV}, requires=["lpv_valid(h)"], ensures={"identity": "same_lpv(result, h)"}, **S)
contract(f"{H}:rt_spv", shapes={"h": SPV}, requires=["spv_valid(h)"], ensures={"identity": "same_spv(result, h)"}, **S)
contract(f"{H}:rt_gn_addr", shapes={"h": GNADDR}, ensures={"identity": "same_gn_addr(result, h)"}, **S)
contract(f"{H}:rt_basic", shapes={"h": BASIC}, requires=["basic_header_valid(h)"],
         ensures={"identity": "result.version == h.version and result.nh == h.nh and result.reserved == h.reserved and result.lt == h.lt and result.rhl == h.rhl"}, **S)
contract(f"{H}:rt_common", shapes={"h": COMMON}, requires=["common_header_valid(h)", "h.flags == 0 or h.flags == 128", "hst_class_ok(h.ht, h.hst)"],
         ensures={"nh_ht": "result.nh == h.nh and result.ht == h.ht", "hst": "result.hst == h.hst", "tc": "result.tc == h.tc",
                  "flags": "result.flags == h.flags", "pl_mhl_reserved": "result.pl == h.pl and result.mhl == h.mhl and result.reserved == h.reserved"}, **S)
contract(f"{H}:rt_gbc", shapes={"h": GBC}, requires=["gbc_valid(h)"],
         ensures={"identity": "result.sn == h.sn and result.reserved == h.reserved and same_lpv(result.so_pv, h.so_pv) and result.latitude == h.latitude and result.longitude == h.longitude and result.a == h.a and result.b == h.b and result.angle == h.angle and result.reserved2 == h.reserved2"}, **S)
contract(f"{H}:rt_tsb", shapes={"h": TSB}, requires=["ext_valid(h)"],
         ensures={"identity": "result.sn == h.sn and result.reserved == h.reserved and same_lpv(result.so_pv, h.so_pv)"}, **S)
contract(f"{H}:rt_guc", shapes={"h": GUC}, requires=["ext_valid(h)", "spv_valid(h.de_pv)"],
         ensures={"identity": "result.sn == h.sn and result.reserved == h.reserved and same_lpv(result.so_pv, h.so_pv) and same_spv(result.de_pv, h.de_pv)"}, **S)
contract(f"{H}:rt_ls_request", shapes={"h": LSREQ}, requires=["ext_valid(h)"],
         ensures={"identity": "result.sn == h.sn and result.reserved == h.reserved and same_lpv(result.so_pv, h.so_pv) and same_gn_addr(result.request_gn_addr, h.request_gn_addr)"}, **S)
contract(f"{H}:rt_ls_reply", shapes={"h": LSREP}, requires=["ext_valid(h)", "spv_valid(h.de_pv)"],
         ensures={"identity": "result.sn == h.sn and result.reserved == h.reserved and same_lpv(result.so_pv, h.so_pv) and same_spv(result.de_pv, h.de_pv)"}, **S)
contract(f"{H}:rt_btp_a", shapes={"h": BTPA}, requires=["0 <= h.destination_port < 65536", "0 <= h.source_port < 65536"],
         ensures={"identity": "result.destination_port == h.destination_port and result.source_port == h.source_port"}, **S)
contract(f"{H}:rt_btp_b", shapes={"h": BTPB}, requires=["0 <= h.destination_port < 65536", "0 <= h.destination_port_info < 65536"],
         ensures={"identity": "result.destination_port == h.destination_port and result.destination_port_info == h.destination_port_info"}, **S)
