"""Assumed models of the Router's collaborators when the Router's own methods are verified (DESIGN §5 C01/C06):
the location table (verified separately, see c_loct*.py), the sign/verify services (C03/C05) and timers."""
import z3
from pyvc.values import (NONE, Opt, StrV, Rec, Ref, TupleV, BytesV, Opaque, RaiseV, ExcV, Obj, Unsupported)
from pyvc.shapes import Maker, T
from .shapes_geonet import LPV

LTE = "flexstack.geonet.location_table:LocationTableEntry"
from .shapes_geonet import GNADDR, PV
VALID_LPV = T.rec(f"{PV}:LongPositionVector", gn_addr=GNADDR, tst=T.rec(f"{PV}:TST", msec=T.int(0, 2 ** 32 - 1)),
                  latitude=T.int(-2 ** 31, 2 ** 31 - 1), longitude=T.int(-2 ** 31, 2 ** 31 - 1),
                  s=T.int(-2 ** 14, 2 ** 14 - 1), h=T.int(0, 2 ** 16 - 1))
ENTRY = T.obj(LTE, position_vector=VALID_LPV, ls_pending=T.bool, is_neighbour=T.bool, pdr=T.float(0))


def h_location_table(e, st, o, name, args, kwargs):
    e.used_assumptions.add("Router-level obligations see LocationTable through an abstract model: get_entry returns an "
                           "arbitrary (possibly absent) entry, new_*_packet either records the update in a ghost log "
                           "or raises DuplicatedPacketException; the real LocationTable is verified against its own "
                           "contracts (C06/C08)")
    if name == "get_neighbours":
        n = e.T.const(e.fresh("n_neighbours"))
        yield st.assume(n >= e.intval(0)), Opaque("sized", None, {"len": n})
        return
    if name in ("get_entry", "ensure_entry"):
        key = args[0]
        for k, v in st.ghost.get("lt_entries", ()):
            if z3.is_true(z3.simplify(e.eq(st, k, key))):
                yield st, v
                return
        s1, ent = Maker(e).make(st, ENTRY, e.fresh("loct_entry"))
        updated = False
        for lk in st.ghost.get("lt_last_key", ()):
            if z3.is_true(z3.simplify(e.eq(st, lk, key))):
                updated = True
        e.used_assumptions.add("location-table invariant (assumed at Router level): stored position vectors are "
                               "field-valid, and a neighbour entry's position vector carries the address it is keyed by")
        pv = s1.obj(ent).f["position_vector"]
        if isinstance(key, Rec) and "mid" in key.f:
            same = z3.And(e.eq(s1, pv.f["gn_addr"].f["m"], key.f["m"]), e.eq(s1, pv.f["gn_addr"].f["st"], key.f["st"]),
                          e.eq(s1, pv.f["gn_addr"].f["mid"].f["mid"], key.f["mid"].f["mid"]))
            s1 = s1.assume(same if updated else z3.Implies(s1.obj(ent).f["is_neighbour"], same))
        if updated and name == "get_entry":
            # the packet just processed created / refreshed this very entry
            v = ent
            yield s1.ghost_append("lt_entries", (key, v)), v
            return
        v = ent if name == "ensure_entry" else Opt(z3.Bool(e.fresh("loct_absent")), ent)
        yield s1.ghost_append("lt_entries", (key, v)), v
        return
    if name.startswith("new_") and name.endswith("_packet"):
        g = dict(st.ghost)
        g.pop("lt_entries", None)            # the table changed: earlier lookups say nothing about later ones
        s1 = st._clone(ghost=g).ghost_append("lt_updates", TupleV([StrV(name)] + list(args)))
        hdr = args[0]
        src = hdr.f["gn_addr"] if "gn_addr" in getattr(hdr, "f", {}) else hdr.f["so_pv"].f["gn_addr"]
        g2 = dict(s1.ghost)
        g2["lt_last_key"] = (src,)
        s1 = s1._clone(ghost=g2)
        yield s1, NONE
        if name != "new_shb_packet":
            yield st.ghost_append("lt_duplicates", TupleV([StrV(name)] + list(args))), RaiseV(ExcV("DuplicatedPacketException",
                                  e.repo.class_by_qual("flexstack.geonet.exceptions:DuplicatedPacketException"), ()))
        return
    if name == "refresh_table":
        yield st, NONE
        return
    raise Unsupported(f"location_table.{name}")


def h_sized(e, st, o, name, args, kwargs):
    if name == "__len__":
        yield st, o.data["len"]
        return
    raise Unsupported(f"sized.{name}")


def h_sign_service(e, st, o, name, args, kwargs):
    e.used_assumptions.add("SignService.sign_* seen from the Router: returns an SNSIGNConfirm whose sec_message is an "
                           "arbitrary byte string (a ghost log records the request); verified separately (C05)")
    if name in ("sign_cam", "sign_denm", "sign_request", "sign_other"):
        ci = e.repo.class_by_qual("flexstack.security.sn_sap:SNSIGNConfirm")
        v, cs = e.sym_bytes(e.fresh("sec_message"), 0, 4000)
        s1 = st
        for c in cs:
            s1 = s1.assume(c)
        s1 = s1.ghost_append("sign_calls", TupleV([StrV(name), args[0], v]))
        yield s1, Rec(ci, {"sec_message": v, "sec_message_length": e.bytes_len(v)})
        return
    raise Unsupported(f"sign_service.{name}")


def _fresh_counter(e, st):
    c = e.T.const(e.fresh("ls_count"))
    return st.assume(c >= e.intval(0)), c


def _fresh_buffer(e, st):
    """BOUNDED stand-in: a buffered-request list of length 0, 1 or 2 (chosen by the path), see DESIGN C01"""
    from pyvc.shapes import Maker
    from .shapes_geonet import gnreq, PTT_GUC
    e.used_assumptions.add("BOUNDED: LS packet buffers are explored with 0..2 buffered requests only")
    n = e.__dict__.setdefault("_buf_len", 2)
    items = []
    for i in range(n):
        st, r = Maker(e).make(st, gnreq(PTT_GUC), e.fresh("buffered_req"))
        # buffer invariant (assumed): only requests accepted by gn_data_request_guc are ever buffered
        st = st.assume(e.spec_bool(st, "request_ok(r) and r.destination is not None", {"r": r}, "assume", "spec_geonet"))
        items.append(r)
    return st.alloc(Obj(None, "list", None, items))


def setup(e):
    from pyvc.models import make_keyed_map_handler, _fresh_timer
    e.opaque_handlers["ls_timers"] = make_keyed_map_handler(_fresh_timer)
    e.opaque_handlers["ls_counters"] = make_keyed_map_handler(_fresh_counter)
    e.opaque_handlers["ls_buffers"] = make_keyed_map_handler(_fresh_buffer)
    e.opaque_handlers["location_table"] = h_location_table
    e.opaque_handlers["sized"] = h_sized
    e.opaque_handlers["sign_service"] = h_sign_service


def h_verify_service(e, st, o, name, args, kwargs):
    e.used_assumptions.add("VerifyService.verify seen from the Router: returns an arbitrary SNVERIFYConfirm (report, "
                           "plain_message); the service itself is verified under C03/C09")
    if name != "verify":
        raise Unsupported(f"verify_service.{name}")
    from pyvc.shapes import Maker
    shape = T.rec("flexstack.security.sn_sap:SNVERIFYConfirm", certificate_id=T.bytes(0, 8), its_aid=T.bytes(0, 8),
                  permissions=T.bytes(0, 64), plain_message=T.bytes(0, 2000))
    s1, conf = Maker(e).make(st, shape, e.fresh("verify_confirm"))
    yield s1.ghost_append("verify_calls", TupleV([args[0], conf])), conf


_prev_setup = setup


def setup(e):        # noqa: F811
    _prev_setup(e)
    e.opaque_handlers["verify_service"] = h_verify_service
