"""Assumed models of the Router's collaborators when the Router's own methods are verified (DESIGN §5 C01/C06):
the location table (verified separately, see c_loct*.py), the sign/verify services (C03/C05) and timers."""
import z3
from pyvc.values import (NONE, Opt, StrV, Rec, Ref, TupleV, BytesV, Opaque, RaiseV, ExcV, Obj, Unsupported)
from pyvc.shapes import Maker, T
from .shapes_geonet import LPV

LTE = "flexstack.geonet.location_table:LocationTableEntry"
ENTRY = T.obj(LTE, position_vector=LPV, ls_pending=T.bool, is_neighbour=T.bool, pdr=T.float(0))


def h_location_table(e, st, o, name, args, kwargs):
    e.used_assumptions.add("Router-level obligations see LocationTable through an abstract model: get_entry returns an "
                           "arbitrary (possibly absent) entry, new_*_packet either records the update in a ghost log "
                           "or raises DuplicatedPacketException; the real LocationTable is verified against its own "
                           "contracts (C06/C08)")
    if name == "get_neighbours":
        n = e.T.const(e.fresh("n_neighbours"))
        yield st.assume(n >= e.intval(0)), Opaque("sized", None, {"len": n})
        return
    if name in ("get_entry", "ensure_entry"):
        key = args[0]
        for k, v in st.ghost.get("lt_entries", ()):
            if z3.is_true(z3.simplify(e.eq(st, k, key))):
                yield st, v
                return
        s1, ent = Maker(e).make(st, ENTRY, e.fresh("loct_entry"))
        v = ent if name == "ensure_entry" else Opt(z3.Bool(e.fresh("loct_absent")), ent)
        yield s1.ghost_append("lt_entries", (key, v)), v
        return
    if name.startswith("new_") and name.endswith("_packet"):
        g = dict(st.ghost)
        g.pop("lt_entries", None)            # the table changed: earlier lookups say nothing about later ones
        s1 = st._clone(ghost=g).ghost_append("lt_updates", TupleV([StrV(name)] + list(args)))
        yield s1, NONE
        if name != "new_shb_packet":
            yield st, RaiseV(ExcV("DuplicatedPacketException",
                                  e.repo.class_by_qual("flexstack.geonet.exceptions:DuplicatedPacketException"), ()))
        return
    if name == "refresh_table":
        yield st, NONE
        return
    raise Unsupported(f"location_table.{name}")


def h_sized(e, st, o, name, args, kwargs):
    if name == "__len__":
        yield st, o.data["len"]
        return
    raise Unsupported(f"sized.{name}")


def h_sign_service(e, st, o, name, args, kwargs):
    e.used_assumptions.add("SignService.sign_* seen from the Router: returns an SNSIGNConfirm whose sec_message is an "
                           "arbitrary byte string (a ghost log records the request); verified separately (C05)")
    if name in ("sign_cam", "sign_denm", "sign_request", "sign_other"):
        ci = e.repo.class_by_qual("flexstack.security.sn_sap:SNSIGNConfirm")
        v, cs = e.sym_bytes(e.fresh("sec_message"), 0, 4000)
        s1 = st
        for c in cs:
            s1 = s1.assume(c)
        s1 = s1.ghost_append("sign_calls", TupleV([StrV(name), args[0]]))
        yield s1, Rec(ci, {"sec_message": v, "sec_message_length": e.bytes_len(v)})
        return
    raise Unsupported(f"sign_service.{name}")


def setup(e):
    e.opaque_handlers["location_table"] = h_location_table
    e.opaque_handlers["sized"] = h_sized
    e.opaque_handlers["sign_service"] = h_sign_service
