"""Spec for C17 (EN 302 637-3 DENM repetition) - pure Python."""


def ceil_div(t, i):
    """number of DENMs for duration t and interval i (i > 0): ceil(t / i), 0 for t <= 0"""
    return 0 if t <= 0 else (t + i - 1) // i


def n_denms():
    return gcount('denms')


def req0():
    return ghost('btp_requests')[0]


def is_ceil_div(n, t, i):
    """n == ceil(t / i) for i > 0 and t >= 0, stated without division: n*i covers t and (n-1)*i does not"""
    return n >= 0 and n * i >= t and (n == 0 or (n - 1) * i < t)


def the_denm():
    return ghost('encoded')[0]


def stored():
    return ghost('ldm_adds')[0]
