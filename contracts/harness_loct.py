"""C08 lemma: the keep/purge decision of LocationTable.refresh_table in terms of real (unreduced) millisecond times."""
from spec_loct import sgn32


def entry_kept(now_ms: int, stamp_ms: int, lifetime_s: int) -> bool:
    """now_ms: receiver clock, stamp_ms: the entry's position time, both unreduced ITS milliseconds.
    refresh_table sees the clock truncated to whole seconds and both values modulo 2^32."""
    clock = ((now_ms // 1000) * 1000) % 2 ** 32
    tst = stamp_ms % 2 ** 32
    return sgn32((clock - tst) % 2 ** 32) <= lifetime_s * 1000
