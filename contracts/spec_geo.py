"""Spec for C07 (EN 302 931 geometric function, EN 302 636-4-1 Annex D).  Trigonometry is uninterpreted: what is
proved is the decision logic and the *shape* of the formula over the projected offsets."""
import math

OPAQUE_IN_CODEC = ("F_area", "area_size_m2")
REAL_VALUED = ("F_area", "area_size_m2")
EARTH_RADIUS = 6371000


def offsets(clat, clon, lat, lon):
    """planar offsets (x: southward, y: eastward, metres) of the point from the area centre - the projection the
    router uses (equirectangular at the mean latitude)"""
    lat1 = math.radians(clat / 10000000)
    lon1 = math.radians(clon / 10000000)
    lat2 = math.radians(lat / 10000000)
    lon2 = math.radians(lon / 10000000)
    y = EARTH_RADIUS * (lon2 - lon1) * math.cos((lat1 + lat2) / 2)
    x = -1 * EARTH_RADIUS * (lat2 - lat1)
    return (x, y)


def shape_of(area_type):
    """0 circle, 1 rectangle, 2 ellipse (same numbering for GBC and GAC sub-types)"""
    return area_type.value


def F_area(shape, a, b, angle, clat, clon, lat, lon):
    """EN 302 931 function F for the area (centre clat/clon, semi-axes a/b, azimuth angle) at the point lat/lon.
    F >= 0 inside or on the border, < 0 outside; zero-sized areas contain nothing."""
    if a == 0 or (b == 0 and shape != 0):
        return -1.0
    x, y = offsets(clat, clon, lat, lon)
    t = math.radians(angle)
    xa = -x * math.cos(t) + y * math.sin(t)
    yb = x * math.sin(t) + y * math.cos(t)
    if shape == 0:
        return 1 - (xa / a) ** 2 - (yb / a) ** 2
    if shape == 2:
        return 1 - (xa / a) ** 2 - (yb / b) ** 2
    return min(1 - (xa / a) ** 2, 1 - (yb / b) ** 2)


def area_size_m2(shape, a, b):
    if shape == 0:
        return math.pi * a * a
    if shape == 2:
        return math.pi * a * b
    return 4.0 * a * b


def F_ego(router, request):
    a = request.area
    return F_area(shape_of(request.packet_transport_type.header_subtype), a.a, a.b, a.angle, a.latitude, a.longitude,
                  router.ego_position_vector.latitude, router.ego_position_vector.longitude)
