"""Spec for C07 (EN 302 931 geometric function, EN 302 636-4-1 Annex D).  Trigonometry is uninterpreted: what is
proved is the decision logic and the *shape* of the formula over the projected offsets."""
import math

OPAQUE_IN_CODEC = ("F_area", "area_size_m2")
REAL_VALUED = ("F_area", "area_size_m2", "proj_x", "proj_y")
EARTH_RADIUS = 6371000


def proj_x(lat1_deg, lon1_deg, lat2_deg, lon2_deg):
    """southward offset (metres) of point 2 from point 1 in the router's planar projection (degrees in)"""
    return -1 * EARTH_RADIUS * (math.radians(lat2_deg) - math.radians(lat1_deg))


def proj_y(lat1_deg, lon1_deg, lat2_deg, lon2_deg):
    """eastward offset (metres): equirectangular projection at the mean latitude"""
    return EARTH_RADIUS * (math.radians(lon2_deg) - math.radians(lon1_deg)) * math.cos((math.radians(lat1_deg) + math.radians(lat2_deg)) / 2)


def offsets(clat, clon, lat, lon):
    """planar offsets (x: southward, y: eastward, metres) of the point from the area centre (1/10 microdegrees in)"""
    return (proj_x(clat / 10000000, clon / 10000000, lat / 10000000, lon / 10000000),
            proj_y(clat / 10000000, clon / 10000000, lat / 10000000, lon / 10000000))


def shape_of(area_type):
    """0 circle, 1 rectangle, 2 ellipse (same numbering for GBC and GAC sub-types)"""
    return area_type.value


def F_area(shape, a, b, angle, clat, clon, lat, lon):
    """EN 302 931 function F for the area (centre clat/clon, semi-axes a/b, azimuth angle) at the point lat/lon.
    F >= 0 inside or on the border, < 0 outside; zero-sized areas contain nothing."""
    if a == 0 or (b == 0 and shape != 0):
        return -1.0
    x, y = offsets(clat, clon, lat, lon)
    t = math.radians(angle)
    xa = -x * math.cos(t) + y * math.sin(t)
    yb = x * math.sin(t) + y * math.cos(t)
    if shape == 0:
        return 1 - (xa / a) ** 2 - (yb / a) ** 2
    if shape == 2:
        return 1 - (xa / a) ** 2 - (yb / b) ** 2
    return min(1 - (xa / a) ** 2, 1 - (yb / b) ** 2)


def area_size_m2(shape, a, b):
    if shape == 0:
        return math.pi * a * a
    if shape == 2:
        return math.pi * a * b
    return 4.0 * a * b


def F_ego(router, request):
    a = request.area
    return F_area(shape_of(request.packet_transport_type.header_subtype), a.a, a.b, a.angle, a.latitude, a.longitude,
                  router.ego_position_vector.latitude, router.ego_position_vector.longitude)
