from flexstack.geonet.gbc_extended_header import GBCExtendedHeader
from flexstack.geonet.guc_extended_header import GUCExtendedHeader
from flexstack.geonet.common_header import CommonHeader
from flexstack.geonet.service_access_point import CommonNH, LocationServiceHST, TrafficClass

"""Spec functions for the GeoNetworking headers (pure Python: executed symbolically by pyvc and natively at replay).
Written from the property statements and the wire-format tables in DESIGN.md Appendix A, not from the code."""

LT_BASE_MS = {0: 50, 1: 1000, 2: 10000, 3: 100000}


def lt_ms(lt):
    """lifetime in milliseconds denoted by an LT record"""
    return lt.multiplier * LT_BASE_MS[lt.base.value]


# --------------------------------------------------------------------------- wire formats (DESIGN Appendix A)
def u(v, bits):
    """two's-complement image of v in `bits` bits"""
    return v % (2 ** bits)


def sgn(x, bits):
    """signed value of a `bits`-wide two's-complement field"""
    return x - 2 ** bits if x >= 2 ** (bits - 1) else x


def be(data, off, n):
    return int.from_bytes(data[off:off + n], "big")


def bits(x, lo, width):
    """field of `width` bits whose least significant bit is bit `lo` of x"""
    return (x // 2 ** lo) % 2 ** width


def lt_valid(lt):
    return 0 <= lt.multiplier <= 63


def lt_code(lt):
    return lt.multiplier * 4 + lt.base.value


def basic_header_valid(h):
    return 0 <= h.version <= 15 and 0 <= h.reserved <= 255 and 0 <= h.rhl <= 255 and lt_valid(h.lt)


def basic_header_int(h):
    return h.version * 2 ** 28 + h.nh.value * 2 ** 24 + h.reserved * 2 ** 16 + lt_code(h.lt) * 2 ** 8 + h.rhl


def tc_valid(tc):
    return 0 <= tc.tc_id <= 63


def tc_int(tc):
    return (128 if tc.scf else 0) + (64 if tc.channel_offload else 0) + tc.tc_id


def common_header_valid(h):
    return (tc_valid(h.tc) and 0 <= h.flags <= 255 and 0 <= h.pl <= 65535 and 0 <= h.mhl <= 255
            and 0 <= h.reserved <= 255)


def common_header_int(h):
    """nh:4 reserved:4 ht:4 hst:4 tc:8 flags:8 pl:16 mhl:8 reserved:8"""
    return (h.nh.value * 2 ** 60 + h.ht.value * 2 ** 52 + h.hst.value * 2 ** 48 + tc_int(h.tc) * 2 ** 40
            + h.flags * 2 ** 32 + h.pl * 2 ** 16 + h.mhl * 2 ** 8 + h.reserved)


def gn_addr_int(a):
    """m:1 st:5 reserved:10 mid:48"""
    return a.m.value * 2 ** 63 + a.st.value * 2 ** 58 + int.from_bytes(a.mid.mid, "big")


def same_gn_addr(a, b):
    return a.m == b.m and a.st == b.st and a.mid.mid == b.mid.mid


def lpv_valid(p):
    return (0 <= p.tst.msec < 2 ** 32 and -2 ** 31 <= p.latitude < 2 ** 31 and -2 ** 31 <= p.longitude < 2 ** 31
            and -2 ** 14 <= p.s < 2 ** 14 and 0 <= p.h < 2 ** 16)


def lpv_int(p):
    """gn_addr:64 tst:32 lat:s32 lon:s32 pai:1 speed:s15 heading:16"""
    return (gn_addr_int(p.gn_addr) * 2 ** 128 + p.tst.msec * 2 ** 96 + u(p.latitude, 32) * 2 ** 64
            + u(p.longitude, 32) * 2 ** 32 + (2 ** 31 if p.pai else 0) + u(p.s, 15) * 2 ** 16 + p.h)


def same_lpv(a, b):
    return (same_gn_addr(a.gn_addr, b.gn_addr) and a.tst.msec == b.tst.msec and a.latitude == b.latitude
            and a.longitude == b.longitude and a.pai == b.pai and a.s == b.s and a.h == b.h)


def spv_valid(p):
    return 0 <= p.tst.msec < 2 ** 32 and -2 ** 31 <= p.latitude < 2 ** 31 and -2 ** 31 <= p.longitude < 2 ** 31


def spv_int(p):
    return (gn_addr_int(p.gn_addr) * 2 ** 96 + p.tst.msec * 2 ** 64 + u(p.latitude, 32) * 2 ** 32
            + u(p.longitude, 32))


def same_spv(a, b):
    return (same_gn_addr(a.gn_addr, b.gn_addr) and a.tst.msec == b.tst.msec and a.latitude == b.latitude
            and a.longitude == b.longitude)


def lpv_of_bytes_ok(r, data, off):
    """r is the Long PV whose 24-octet image starts at data[off]"""
    return (r.gn_addr.m.value == bits(be(data, off, 1), 7, 1) and r.gn_addr.st.value == bits(be(data, off, 1), 2, 5)
            and r.gn_addr.mid.mid == data[off + 2:off + 8]
            and r.tst.msec == be(data, off + 8, 4) and r.latitude == sgn(be(data, off + 12, 4), 32)
            and r.longitude == sgn(be(data, off + 16, 4), 32) and r.pai == (bits(be(data, off + 20, 2), 15, 1) == 1)
            and r.s == sgn(bits(be(data, off + 20, 2), 0, 15), 15) and r.h == be(data, off + 22, 2))


def spv_of_bytes_ok(r, data, off):
    return (r.gn_addr.m.value == bits(be(data, off, 1), 7, 1) and r.gn_addr.st.value == bits(be(data, off, 1), 2, 5)
            and r.gn_addr.mid.mid == data[off + 2:off + 8]
            and r.tst.msec == be(data, off + 8, 4) and r.latitude == sgn(be(data, off + 12, 4), 32)
            and r.longitude == sgn(be(data, off + 16, 4), 32))


def st_field(data, off):
    return bits(be(data, off, 1), 2, 5)


def ext_valid(h):
    return 0 <= h.sn < 2 ** 16 and 0 <= h.reserved < 2 ** 16 and lpv_valid(h.so_pv)


def gbc_valid(h):
    return (ext_valid(h) and -2 ** 31 <= h.latitude < 2 ** 31 and -2 ** 31 <= h.longitude < 2 ** 31
            and 0 <= h.a < 2 ** 16 and 0 <= h.b < 2 ** 16 and 0 <= h.angle < 2 ** 16 and 0 <= h.reserved2 < 2 ** 16)


def gbc_int(h):
    """sn:16 reserved:16 SO PV(24) area_lat:s32 area_lon:s32 a:16 b:16 angle:16 reserved:16"""
    return (h.sn * 2 ** 336 + h.reserved * 2 ** 320 + lpv_int(h.so_pv) * 2 ** 128 + u(h.latitude, 32) * 2 ** 96
            + u(h.longitude, 32) * 2 ** 64 + h.a * 2 ** 48 + h.b * 2 ** 32 + h.angle * 2 ** 16 + h.reserved2)


def tsb_int(h):
    return h.sn * 2 ** 208 + h.reserved * 2 ** 192 + lpv_int(h.so_pv)


def guc_int(h):
    """sn:16 reserved:16 SO PV(24) DE PV(20)"""
    return h.sn * 2 ** 368 + h.reserved * 2 ** 352 + lpv_int(h.so_pv) * 2 ** 160 + spv_int(h.de_pv)


def ls_request_int(h):
    return h.sn * 2 ** 272 + h.reserved * 2 ** 256 + lpv_int(h.so_pv) * 2 ** 64 + gn_addr_int(h.request_gn_addr)


def hst_known(ht, hst):
    """is (ht, hst) an implemented header type / sub-type pair"""
    if ht == 3 or ht == 4:
        return hst <= 2
    if ht == 5 or ht == 6:
        return hst <= 1
    return hst == 0


def hst_class_ok(ht, hst):
    name = type(hst).__name__
    if ht.value == 3:
        return name == "GeoAnycastHST"
    if ht.value == 4:
        return name == "GeoBroadcastHST"
    if ht.value == 5:
        return name == "TopoBroadcastHST"
    if ht.value == 6:
        return name == "LocationServiceHST"
    return name == "HeaderSubType"


def is_shb(ptt):
    return ptt.header_type.value == 5 and type(ptt.header_subtype).__name__ == "TopoBroadcastHST" \
        and ptt.header_subtype.value == 0


# --------------------------------------------------------------------------- emitted frames (ghost ether)
def n_sent():
    return len(ghost("sent"))


def sent0():
    return ghost("sent")[0]


def common_int(nh, ht, hst, tcv, mobile, pl, mhl):
    """the 8 octets of a Common Header from its field values (reserved fields zero, mobility flag = MSB of flags)"""
    return (nh * 2 ** 60 + ht * 2 ** 52 + hst * 2 ** 48 + tcv * 2 ** 40 + mobile * 128 * 2 ** 32
            + pl * 2 ** 16 + mhl * 2 ** 8)


def lt_octet_ms(octet):
    return (octet // 4) * LT_BASE_MS[octet % 4]


def frame_basic_ok(frame, nh, rhl):
    """octets 0..3: version 1, next header nh, reserved 0, remaining hop limit rhl"""
    return be(frame, 0, 1) == 16 + nh and be(frame, 1, 1) == 0 and be(frame, 3, 1) == rhl


def frame_lifetime_ms(frame):
    return lt_octet_ms(be(frame, 2, 1))


def requested_ms(request, mib):
    return (request.max_packet_lifetime * 1000 if request.max_packet_lifetime is not None
            else mib.itsGnDefaultPacketLifetime * 1000)


def request_ok(request):
    return (request.length == len(request.data) and 0 <= request.length <= 65535 and tc_valid(request.traffic_class)
            and 0 <= request.max_hop_limit <= 255
            and (request.max_packet_lifetime is None or request.max_packet_lifetime >= 0))


def area_ok(area):
    return (-2 ** 31 <= area.latitude < 2 ** 31 and -2 ** 31 <= area.longitude < 2 ** 31 and 0 <= area.a < 2 ** 16
            and 0 <= area.b < 2 ** 16 and 0 <= area.angle < 2 ** 16)


def mib_ok(mib):
    return mib.itsGnDefaultPacketLifetime >= 0 and 0 <= mib.itsGnDefaultHopLimit <= 255 and mib.itsGnProtocolVersion == 1


def area_int(area):
    return (u(area.latitude, 32) * 2 ** 96 + u(area.longitude, 32) * 2 ** 64 + area.a * 2 ** 48 + area.b * 2 ** 32
            + area.angle * 2 ** 16)



# --------------------------------------------------------------------------- lifetime quantisation (C20)
OPAQUE_IN_CODEC = ("best_ms", "requested_ms_int")


def best_ms(v):
    """largest lifetime representable as multiplier (0..63) x base (50 ms, 1 s, 10 s, 100 s) not exceeding v ms"""
    c0 = min(v // 50, 63) * 50
    c1 = min(v // 1000, 63) * 1000
    c2 = min(v // 10000, 63) * 10000
    c3 = min(v // 100000, 63) * 100000
    return max(0, c0, c1, c2, c3)


def requested_ms_int(max_packet_lifetime, default_s):
    """requested maximum packet lifetime in whole milliseconds (MIB default when none is requested)"""
    return int(max_packet_lifetime * 1000) if max_packet_lifetime is not None else default_s * 1000


def exists_code(ms):
    """ms is multiplier x base for some 6-bit multiplier"""
    return ((ms % 50 == 0 and ms // 50 <= 63) or (ms % 1000 == 0 and ms // 1000 <= 63)
            or (ms % 10000 == 0 and ms // 10000 <= 63) or (ms % 100000 == 0 and ms // 100000 <= 63))


def hop_limit_for(request, mib):
    """multi-hop source operations: the requested limit when above 1, else the MIB default"""
    return request.max_hop_limit if request.max_hop_limit > 1 else mib.itsGnDefaultHopLimit


def gbc_ext_bytes(sn, so_pv, area):
    """sn:16 reserved:16 SO PV(24) area(16) - the image of the header with exactly these field values"""
    return gbc_int(GBCExtendedHeader(sn=sn, reserved=0, so_pv=so_pv, latitude=area.latitude, longitude=area.longitude,
                                     a=area.a, b=area.b, angle=area.angle, reserved2=0)).to_bytes(44, "big")


def guc_ext_bytes(sn, so_pv, de_pv):
    return guc_int(GUCExtendedHeader(sn=sn, reserved=0, so_pv=so_pv, de_pv=de_pv)).to_bytes(48, "big")


def common_bytes(nh, ht, hst, tc, mobile, pl, mhl):
    """the 8 octets of the Common Header with these field values (reserved zero, mobility flag = MSB of flags)"""
    return common_header_int(CommonHeader(nh=nh, reserved=0, ht=ht, hst=hst, tc=tc, flags=mobile * 128, pl=pl,
                                          mhl=mhl)).to_bytes(8, "big")


# --------------------------------------------------------------------------- receiver / forwarder operations
def n_updates():
    return len(ghost("lt_updates"))


def own_mid(router):
    return router.mib.itsGnLocalGnAddr.mid.mid


def lpv_conformant(data, off):
    """the Long PV image at data[off:off+24] has its reserved GN_ADDR bits zero and a known station type"""
    return bits(be(data, off, 2), 0, 10) == 0 and st_field(data, off) <= 12


def basic_bytes_rhl(basic, rhl):
    """Basic Header octets with the remaining hop limit replaced by rhl"""
    return (basic_header_int(basic) - basic.rhl + rhl).to_bytes(4, "big")


def indication_ok(ind, common, basic, so_pv_off, packet, payload_off):
    """the upper-layer indication carries the payload, source PV, upper protocol and hop/lifetime info of the packet"""
    return (ind.data == packet[payload_off:] and ind.length == len(packet[payload_off:])
            and lpv_of_bytes_ok(ind.source_position_vector, packet, so_pv_off)
            and ind.upper_protocol_entity == common.nh and ind.traffic_class == common.tc
            and ind.remaining_hop_limit == basic.rhl
            and ind.remaining_packet_lifetime == float(lt_ms(basic.lt) // 1000))


def n_timers():
    return len(ghost("timers_started"))


def timer0_packet():
    """the packet a contention-based-forwarding timer will transmit when it fires"""
    return timer_arg(ghost("timers_started")[0], 1)


def n_emitted():
    """frames sent now plus frames buffered for contention-based forwarding"""
    return n_sent() + n_timers()


def emitted0():
    return sent0() if n_sent() == 1 else timer0_packet()


def gbc_area_of(packet):
    """(shape-independent) area fields of the GBC/GAC extended header at the start of packet"""
    return (sgn(be(packet, 28, 4), 32), sgn(be(packet, 32, 4), 32), be(packet, 36, 2), be(packet, 38, 2), be(packet, 40, 2))


def n_ls_requests():
    """location-service lookups started (calls of gn_ls_request) during this operation"""
    return len(ghost("ls_requests"))


def cbf_key_of(packet):
    """(source GN address, sequence number) of a received GBC packet (extended header first): the key of its CBF entry"""
    h = GBCExtendedHeader.decode(packet[0:44])
    return (h.so_pv.gn_addr, h.sn)


def signed_message_of_call():
    """the secured message the sign service returned for the (single) signing request of this call"""
    return ghost('sign_calls')[0][2]
