"""Spec functions for the GeoNetworking headers (pure Python: executed symbolically by pyvc and natively at replay).
Written from the property statements and the wire-format tables in DESIGN.md Appendix A, not from the code."""

LT_BASE_MS = {0: 50, 1: 1000, 2: 10000, 3: 100000}


def lt_ms(lt):
    """lifetime in milliseconds denoted by an LT record"""
    return lt.multiplier * LT_BASE_MS[lt.base.value]
