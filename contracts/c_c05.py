"""C05: TS 103 097 clause 7.1 signing profiles of the real SignService / CAM security handler."""
from pyvc.contracts import contract, T
from . import models_sec

SS = "flexstack.security"
SGN = f"{SS}.sign_service"
H = T.obj(f"{SGN}:CooperativeAwarenessMessageSecurityHandler", backend=T.opaque("ecdsa_backend"),
          last_signer_full_certificate_time=T.float(0), requested_own_certificate=T.bool)
AT = T.opaque("certificate", certificate=T.dict(_open=True, toBeSigned=T.dict(_open=True)))
S = dict(mode="int", spec_module="spec_sec", engine_setup=models_sec.setup, frame_check=False, float_as_real=True)

contract(f"{SGN}:CooperativeAwarenessMessageSecurityHandler.set_up_signer", props=["C05"], shapes={"self": H, "certificate": AT},
         modifies=["self.last_signer_full_certificate_time", "self.requested_own_certificate"],
         ensures={
             "full_certificate_iff_more_than_1s_since_last_inclusion_or_requested": "(result[0] == 'certificate') == (now() - old(self.last_signer_full_certificate_time) > 1 or old(self.requested_own_certificate))",
             "otherwise_the_digest_of_this_ticket": "implies(result[0] != 'certificate', result[0] == 'digest' and result[1] == certificate.as_hashedid8())",
             "the_certificate_included_is_this_ticket": "implies(result[0] == 'certificate', len(result[1]) == 1 and result[1][0] is certificate.certificate)",
             "inclusion_timer_restarts_only_on_inclusion": "self.last_signer_full_certificate_time == (now() if result[0] == 'certificate' else old(self.last_signer_full_certificate_time))",
             "request_flag_cleared_only_on_inclusion": "self.requested_own_certificate == (False if result[0] == 'certificate' else old(self.requested_own_certificate))"},
         cover=["result[0] == 'certificate'", "result[0] == 'digest'"], canary={"always_digest": "result[0] == 'digest'"}, **S)

SRQ = T.rec(f"{SS}.sn_sap:SNSIGNRequest", tbs_message_length=T.int(0, 2000), tbs_message=T.bytes(0, 2000), its_aid=T.int(0, 2 ** 32),
            permissions_length=T.int(0, 10), permissions=T.bytes(0, 10), context_information=T.none, key_handle=T.none,
            generation_location=T.opt(T.opaque("object")))
B3 = T.bytes_n(3)
LISTS = T.oneof(T.list(), T.list(B3), T.list(B3, B3))
SVC = T.obj(f"{SGN}:SignService", ecdsa_backend=T.opaque("ecdsa_backend"), certificate_library=T.opaque("cert_library"),
            unknown_ats=LISTS, requested_ats=LISTS, cam_handler=H)

contract(f"{SGN}:SignService.get_present_at_for_signging", props=[], assumed=True, shapes={"self": SVC, "its_aid": T.int()}, returns=T.opt(AT),
         ensures={}, note="assumed: some own certificate covering its_aid or None (iterates the whole own-certificate store)", **S)
contract(f"{SGN}:SignService.get_known_at_for_request", props=[], assumed=True, shapes={"self": SVC, "hashedid3": B3}, returns=T.opaque("object"),
         may_raise=["RuntimeError"], ensures={}, note="assumed: the stored CA certificate dictionary for a HashedId3, or RuntimeError", **S)

_SD = "signed_message()['content'][1]"
_HI = _SD + "['tbsData']['headerInfo']"
_COMMON = {
    "one_message_encoded_and_returned": "len(ghost('secured')) == 1 and result.sec_message == ghost('secured')[0][1] and result.sec_message_length == len(result.sec_message)",
    "payload_is_the_requests_message": _SD + "['tbsData']['payload']['data']['content'][0] == 'unsecuredData' and " + _SD + "['tbsData']['payload']['data']['content'][1] == request.tbs_message",
    "psid_is_the_requests_its_aid_and_generation_time_is_now": _HI + "['psid'] == request.its_aid and 'generationTime' in " + _HI,
    "signed_once_with_the_ticket_over_the_encoding_of_this_tbs_data": "len(ghost('signed_with')) == 1 and len(ghost('tbs_encoded')) == 1 and ghost('tbs_encoded')[0][0] is " + _SD + "['tbsData'] and ghost('signed_with')[0][1] == ghost('tbs_encoded')[0][1] and " + _SD + "['signature'] is ghost('signed_with')[0][2]",
    "tbs_data_not_changed_after_it_was_encoded_for_signing": "ghost('tbs_encoded')[0][2] == header_keys(" + _HI + ")",
}
contract(f"{SGN}:SignService.sign_denm", props=["C05"], shapes={"self": SVC, "request": SRQ},
         raises={"ValueError": "request.generation_location is None"}, may_raise=["RuntimeError"],
         ensures=dict(_COMMON, **{
             "denm_always_carries_the_certificate": _SD + "['signer'][0] == 'certificate' and len(" + _SD + "['signer'][1]) == 1 and " + _SD + "['signer'][1][0] is ghost('signed_with')[0][0].certificate",
             "denm_header_has_exactly_psid_generation_time_and_location": "header_keys(" + _HI + ") == ['generationLocation', 'generationTime', 'psid'] and " + _HI + "['generationLocation'] is request.generation_location"}),
         cover=["True"], **S)
contract(f"{SGN}:SignService.sign_other", props=["C05"], shapes={"self": SVC, "request": SRQ}, may_raise=["RuntimeError"],
         ensures=dict(_COMMON, **{
             "generic_profile_signs_with_the_digest": _SD + "['signer'][0] == 'digest' and " + _SD + "['signer'][1] == ghost('signed_with')[0][0].as_hashedid8()",
             "generic_header_has_exactly_psid_and_generation_time": "header_keys(" + _HI + ") == ['generationTime', 'psid']"}),
         cover=["True"], **S)
contract(f"{SGN}:SignService.sign_cam", props=["C05"], bound="0..2 pending HashedId3 entries per list", shapes={"self": SVC, "request": SRQ}, may_raise=["RuntimeError"],
         inline=[f"{SGN}:CooperativeAwarenessMessageSecurityHandler.set_up_signer"],
         modifies=["self.requested_ats", "self.cam_handler.last_signer_full_certificate_time", "self.cam_handler.requested_own_certificate"],
         ensures=dict(_COMMON, **{
             "cam_signer_follows_the_inclusion_rule": "(" + _SD + "['signer'][0] == 'certificate') == (now() - old(self.cam_handler.last_signer_full_certificate_time) > 1 or old(self.cam_handler.requested_own_certificate))",
             "cam_signer_is_this_tickets_certificate_or_digest": "ite(" + _SD + "['signer'][0] == 'certificate', len(" + _SD + "['signer'][1]) == 1 and " + _SD + "['signer'][1][0] is ghost('signed_with')[0][0].certificate, " + _SD + "['signer'][0] == 'digest' and " + _SD + "['signer'][1] == ghost('signed_with')[0][0].as_hashedid8())",
             "cam_header_never_has_a_generation_location_or_other_forbidden_field": "all(k in ['generationTime', 'psid', 'inlineP2pcdRequest', 'requestedCertificate'] for k in header_keys(" + _HI + "))",
             "p2pcd_request_present_iff_unknown_tickets_pending": "('inlineP2pcdRequest' in " + _HI + ") == (len(old(self.unknown_ats)) > 0)",
             "requested_certificate_present_iff_a_request_was_pending_and_it_is_consumed": "('requestedCertificate' in " + _HI + ") == (old(len(self.requested_ats)) > 0) and len(self.requested_ats) == max(0, old(len(self.requested_ats)) - 1)"}),
         cover=[_SD + "['signer'][0] == 'certificate'", _SD + "['signer'][0] == 'digest'", "'inlineP2pcdRequest' in " + _HI, "'requestedCertificate' in " + _HI], **S)

_FLAG = "self.cam_handler.requested_own_certificate"
contract(f"{SGN}:SignService.notify_unknown_at", props=["C05"], bound="0..2 pending HashedId3 entries per list", shapes={"self": SVC, "hashedid8": T.bytes_n(8)},
         modifies=["self.unknown_ats", _FLAG],
         ensures={"own_certificate_will_be_included_in_the_next_cam": _FLAG,
                  "the_unknown_ticket_is_requested_by_its_hashedid3": "hashedid8[-3:] in self.unknown_ats",
                  "pending_requests_are_kept_and_not_duplicated": "implies(old(len(self.unknown_ats)) > 0, self.unknown_ats[0] == old(self.unknown_ats[0])) and implies(old(len(self.unknown_ats)) > 1, self.unknown_ats[1] == old(self.unknown_ats[1])) and len(self.unknown_ats) == old(len(self.unknown_ats)) + (0 if old(hashedid8[-3:] in self.unknown_ats) else 1)"},
         field_shapes={_FLAG: T.bool}, **S)
contract(f"{SGN}:SignService.notify_inline_p2pcd_request", props=["C05"], bound="0..2 pending HashedId3 entries per list", shapes={"self": SVC, "request_list": T.oneof(T.list(), T.list(B3), T.list(B3, B3))},
         modifies=["self.requested_ats", _FLAG], field_shapes={_FLAG: T.bool},
         loops={"for#0": {"invariant": [f"implies(old({_FLAG}), {_FLAG})", "len(self.requested_ats) == old(len(self.requested_ats))"], "elem": AT, "modifies": [_FLAG]}},
         ensures={"a_pending_inclusion_request_is_never_withdrawn": f"implies(old({_FLAG}), {_FLAG})",
                  "ca_certificate_requests_are_kept": "implies(old(len(self.requested_ats)) > 0, self.requested_ats[0] == old(self.requested_ats[0])) and implies(old(len(self.requested_ats)) > 1, self.requested_ats[1] == old(self.requested_ats[1]))"},
         canary={"flag_always_set": _FLAG}, **S)
