"""guarded_by declarations for C15 (GeoNetworking router, location table) and C16 (LDM)."""
from pyvc.lockcheck import LockSpec, IdentitySpec

RT = "flexstack.geonet.router:Router"
LT = "flexstack.geonet.location_table"
L = "flexstack.facilities.local_dynamic_map"

LOCKSPECS = [
    LockSpec(RT, {"sequence_number": "sequence_number_lock", "_cbf_buffer": "_cbf_lock", "_ls_timers": "_ls_lock",
                  "_ls_retransmit_counters": "_ls_lock", "_ls_packet_buffers": "_ls_lock",
                  "ego_position_vector": "ego_position_vector_lock"},
             atomic_read_ok=["ego_position_vector"], props=["C15", "C04"], init_phase=["setup_gn_address"],
             guarded_foreign={"ls_pending": "_ls_lock"},
             note="ego_position_vector holds an immutable (frozen) record: writes are locked, a single unlocked read yields a vector that was the ego position at some instant"),
    LockSpec(f"{LT}:LocationTable", {"loc_t": "loc_t_lock"}, props=["C15"]),
    LockSpec(f"{LT}:LocationTableEntry", {"dpl_set": "dpl_lock", "dpl_deque": "dpl_lock", "tst": "tst_lock"}, props=["C15"]),
    LockSpec(f"{L}.dictionary_database:DictionaryDataBase", {"database": "_lock", "_next_id": "_lock"}, props=["C16"]),
    LockSpec(f"{L}.ldm_service:LDMService", {"data_provider_its_aid": "_lock", "data_consumer_its_aid": "_lock",
                                            "subscriptions": "_lock", "last_checked_subscriptions_time": "_lock"}, props=["C16"],
             snapshot_order=[("subscriptions", "data_consumer_its_aid",
                              "a consumer that registers and subscribes in between is seen subscribed but not registered, and its subscription is dropped")]),
    IdentitySpec(f"{L}.ldm_classes:SubscribeDataobjectsReq", props=["C14"],
                 note="the subscription identifier is hash(SubscribeDataobjectsReq): hash() is modelled as an uninterpreted function of ALL fields, which is only right while every field takes part in the generated __hash__ and __eq__"),
]
