"""C02 (and C01, C20): wire-format contracts on every header codec.  Mode: codec (BV-512 + no-overflow obligations)."""
from pyvc.contracts import contract, T
from .shapes_geonet import *

S = dict(mode="bv", spec_module="spec_geonet")
P = ["C02", "C01", "C06"]

# ---------------------------------------------------------------- LT / Basic header
contract(f"{BH}:LT.encode_to_int", props=P + ["C20"], shapes={"self": LTS}, requires=["lt_valid(self)"],
         ensures={"code": "result == lt_code(self)"}, canary={"swapped": "result == self.multiplier + self.base.value * 64"}, **S)
contract(f"{BH}:BasicHeader.encode_to_int", props=P + ["C20"], shapes={"self": BASIC},
         requires=["basic_header_valid(self)"], ensures={"wire": "result == basic_header_int(self)"},
         canary={"rhl_dropped": "result == basic_header_int(self) - self.rhl"}, **S)
contract(f"{BH}:BasicHeader.encode_to_bytes", returns=T.bytes_n(4), props=P + ["C20"], shapes={"self": BASIC},
         requires=["basic_header_valid(self)"],
         ensures={"wire": "result == basic_header_int(self).to_bytes(4, 'big')", "len4": "len(result) == 4"}, **S)
contract(f"{BH}:BasicHeader.decode_from_int", props=P + ["C20"], shapes={"value": T.int(0, 2 ** 32 - 1)},
         raises={"ValueError": "bits(value, 24, 4) > 2"},
         ensures={"version": "result.version == bits(value, 28, 4)", "nh": "result.nh.value == bits(value, 24, 4)",
                  "reserved": "result.reserved == bits(value, 16, 8)",
                  "lt": "result.lt.multiplier == bits(value, 10, 6) and result.lt.base.value == bits(value, 8, 2)",
                  "rhl": "result.rhl == bits(value, 0, 8)",
                  "reencodes": "basic_header_valid(result) and basic_header_int(result) == value"},
         canary={"rhl_off": "result.rhl == bits(value, 1, 8)"}, **S)
contract(f"{BH}:BasicHeader.decode_from_bytes", props=P + ["C20", "C04"], shapes={"value": T.bytes(0, 2000)},
         raises={f"flexstack.geonet.exceptions:DecodeError": "len(value) < 4",
                 "ValueError": "len(value) >= 4 and bits(be(value, 0, 1), 0, 4) > 2"},
         ensures={"fields": "basic_header_valid(result) and basic_header_int(result) == be(value, 0, 4)"}, **S)
contract(f"{BH}:BasicHeader.set_rhl", props=["C02", "C06", "C20"], shapes={"self": BASIC, "rhl": T.int()},
         ensures={"rhl": "result.rhl == rhl % 256",
                  "rest": "result.version == self.version and result.nh == self.nh and result.reserved == self.reserved and result.lt == self.lt"},
         mode="int", spec_module="spec_geonet")
contract(f"{BH}:BasicHeader.set_nh", props=["C02"], shapes={"self": BASIC, "nh": T.enum(f"{BH}:BasicNH")},
         ensures={"nh": "result.nh == nh",
                  "rest": "result.version == self.version and result.rhl == self.rhl and result.reserved == self.reserved and result.lt == self.lt"},
         mode="int", spec_module="spec_geonet")

# ---------------------------------------------------------------- traffic class / common header
contract(f"{SAP}:TrafficClass.encode_to_int", props=P, shapes={"self": TC}, requires=["tc_valid(self)"],
         ensures={"wire": "result == tc_int(self)"}, canary={"scf_low": "result == tc_int(self) + 1"}, **S)
contract(f"{SAP}:TrafficClass.decode_from_int", props=P, shapes={"tc": T.int(0, 255)},
         ensures={"fields": "tc_valid(result) and tc_int(result) == tc"}, **S)
contract(f"{CH}:CommonHeader.encode_to_int", props=P, shapes={"self": COMMON}, requires=["common_header_valid(self)"],
         ensures={"wire": "result == common_header_int(self)"},
         canary={"pl_shifted": "result == common_header_int(self) + self.pl"}, **S)
contract(f"{CH}:CommonHeader.encode_to_bytes", returns=T.bytes_n(8), props=P, shapes={"self": COMMON}, requires=["common_header_valid(self)"],
         ensures={"wire": "result == common_header_int(self).to_bytes(8, 'big')"}, **S)
contract(f"{CH}:CommonHeader.decode_from_int", props=P + ["C04"], shapes={"header": T.int(0, 2 ** 64 - 1)}, returns=COMMON,
         raises={"ValueError": "bits(header, 60, 4) > 3 or bits(header, 52, 4) > 6 or not hst_known(bits(header, 52, 4), bits(header, 48, 4))"},
         ensures={"nh": "result.nh.value == bits(header, 60, 4)", "ht": "result.ht.value == bits(header, 52, 4)",
                  "hst": "result.hst.value == bits(header, 48, 4)",
                  "hst_class": "hst_class_ok(result.ht, result.hst)",
                  "tc": "tc_int(result.tc) == bits(header, 40, 8)", "flags": "result.flags == bits(header, 39, 1) * 128",
                  "pl": "result.pl == bits(header, 16, 16)", "mhl": "result.mhl == bits(header, 8, 8)",
                  "reserved": "result.reserved == bits(header, 0, 8)", "valid": "common_header_valid(result)"}, **S)
contract(f"{CH}:CommonHeader.decode_from_bytes", props=P + ["C04"], shapes={"header": T.bytes(0, 2000)}, returns=COMMON,
         raises={"flexstack.geonet.exceptions:DecodeError": "len(header) < 8",
                 "ValueError": "len(header) >= 8 and (bits(be(header, 0, 8), 60, 4) > 3 or bits(be(header, 0, 8), 52, 4) > 6 or not hst_known(bits(be(header, 0, 8), 52, 4), bits(be(header, 0, 8), 48, 4)))"},
         ensures={"fields": "result.nh.value == bits(be(header, 0, 8), 60, 4) and result.ht.value == bits(be(header, 0, 8), 52, 4) and result.hst.value == bits(be(header, 0, 8), 48, 4) and tc_int(result.tc) == be(header, 2, 1) and result.flags == bits(be(header, 3, 1), 7, 1) * 128 and result.pl == be(header, 4, 2) and result.mhl == be(header, 6, 1) and result.reserved == be(header, 7, 1)", "valid": "common_header_valid(result)",
                  "hst_class": "hst_class_ok(result.ht, result.hst)"},
         **S)

# ---------------------------------------------------------------- GN address
contract(f"{GA}:GNAddress.encode_to_int", props=P, shapes={"self": GNADDR},
         ensures={"wire": "result == gn_addr_int(self)"}, canary={"st_shift": "result == gn_addr_int(self) + self.st.value"}, **S)
contract(f"{GA}:GNAddress.encode", returns=T.bytes_n(8), props=P, shapes={"self": GNADDR},
         ensures={"wire": "result == gn_addr_int(self).to_bytes(8, 'big')"}, **S)
contract(f"{GA}:GNAddress.decode", props=P + ["C04"], shapes={"data": T.bytes(0, 2000)},
         raises={"flexstack.geonet.exceptions:DecodeError": "len(data) < 8",
                 "ValueError": "len(data) >= 8 and st_field(data, 0) > 12"},
         ensures={"m": "result.m.value == bits(be(data, 0, 1), 7, 1)", "st": "result.st.value == st_field(data, 0)",
                  "mid": "result.mid.mid == data[2:8]"}, **S)

# ---------------------------------------------------------------- position vectors
contract(f"{PV}:TST.encode", props=P + ["C08"], shapes={"self": TST}, requires=["0 <= self.msec < 2 ** 32"],
         ensures={"id": "result == self.msec"}, **S)
contract(f"{PV}:TST.decode", props=P + ["C08"], shapes={"data": T.int(0, 2 ** 200)},
         ensures={"low32": "result.msec == data % 2 ** 32"}, **S)
contract(f"{PV}:LongPositionVector.encode", returns=T.bytes_n(24), props=P, shapes={"self": LPV}, requires=["lpv_valid(self)"],
         ensures={"wire": "result == lpv_int(self).to_bytes(24, 'big')"},
         canary={"unsigned_only": "self.latitude >= 0"}, **S)
contract(f"{PV}:LongPositionVector.encode_to_int", props=P, shapes={"self": LPV}, requires=["lpv_valid(self)"],
         ensures={"wire": "result == lpv_int(self)"}, **S)
contract(f"{PV}:LongPositionVector.decode", props=P + ["C04"], shapes={"data": T.bytes(0, 2000)},
         raises={"flexstack.geonet.exceptions:DecodeError": "len(data) < 24",
                 "ValueError": "len(data) >= 24 and st_field(data, 0) > 12"},
         ensures={"fields": "lpv_of_bytes_ok(result, data, 0)", "valid": "lpv_valid(result)"},
         canary={"lat_unsigned": "result.latitude == be(data, 12, 4)"}, **S)
contract(f"{PV}:ShortPositionVector.encode", returns=T.bytes_n(20), props=P, shapes={"self": SPV}, requires=["spv_valid(self)"],
         ensures={"wire": "result == spv_int(self).to_bytes(20, 'big')"}, **S)
contract(f"{PV}:ShortPositionVector.encode_to_int", props=P, shapes={"self": SPV}, requires=["spv_valid(self)"],
         ensures={"wire": "result == spv_int(self)"}, **S)
contract(f"{PV}:ShortPositionVector.decode", props=P + ["C04"], shapes={"data": T.bytes_n(20)},
         raises={"ValueError": "st_field(data, 0) > 12"},
         ensures={"fields": "spv_of_bytes_ok(result, data, 0)", "valid": "spv_valid(result)"}, **S)
