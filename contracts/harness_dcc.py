"""C19 lemmas as harness functions over the contracts of the real methods (callee bodies are not consulted)."""
from flexstack.management.dcc_reactive import DccReactive
from flexstack.management.dcc_adaptive import GateKeeper


def four_updates(d: DccReactive, cbr: float):
    d.update(cbr)
    d.update(cbr)
    d.update(cbr)
    d.update(cbr)
    return d.state


def two_admissions(g: GateKeeper, t1: float, t_on1: float, t2: float, t_on2: float) -> bool:
    first = g.admit_packet(t1, t_on1)
    second = g.admit_packet(t2, t_on2)
    return first and second


def admission_then_rescale_then_probe(g: GateKeeper, t1: float, t_on: float, tu: float, delta_new: float, t: float):
    admitted = g.admit_packet(t1, t_on)
    g.update_delta(tu, delta_new)
    return admitted, g.is_open(t)
