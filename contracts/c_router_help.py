"""Router helpers used by the source / receiver operations."""
from pyvc.contracts import contract, T
from .shapes_geonet import *
from . import models_geonet
from .c_c07_geo import AREA_T, AREA_V

SB = dict(mode="bv", spec_module="spec_geonet", engine_setup=models_geonet.setup, native_setup="native_geonet:setup")
SI = dict(mode="int", spec_module="spec_geo", engine_setup=models_geonet.setup, native_setup="native_geonet:setup",
          float_as_real=True)

contract(f"{RT}:Router.get_sequence_number", props=["C01", "C02", "C15"], shapes={"self": ROUTER},
         modifies=["self.sequence_number"],
         ensures={"next": "result == (old(self.sequence_number) + 1) % 65535", "stored": "self.sequence_number == result",
                  "range": "0 <= result < 65535"},
         canary={"unchanged": "result == old(self.sequence_number)"},
         **dict(SB, mode="int"))
contract(f"{RT}:Router.duplicate_address_detection", props=["C06", "C08", "C01"], shapes={"self": ROUTER, "gn_addr": GNADDR},
         raises={"flexstack.geonet.exceptions:DADException": "self.mib.itsGnLocalGnAddr.mid.mid == gn_addr.mid.mid"},
         ensures={"returns_none": "result is None"}, **SB)
# greedy forwarding iterates over the (abstract) neighbour list: its contract is ASSUMED at call sites
contract(f"{RT}:Router.gn_greedy_forwarding", props=[], assumed=True,
         shapes={"self": ROUTER, "dest_lat": T.int(), "dest_lon": T.int(), "traffic_class": TC},
         ensures={"buffer_only_with_scf": "implies(not result, traffic_class.scf)"},
         trusted=["Router.gn_greedy_forwarding: assumed contract (result False only when SCF is set); body not verified"], **SB)
contract(f"{RT}:Router.gn_forwarding_algorithm_selection", props=["C07"],
         shapes={"self": ROUTER, "request": T.rec(f"{SAP}:GNDataRequest", packet_transport_type=T.rec(f"{SAP}:PacketTransportType", header_subtype=AREA_T), traffic_class=TC, area=AREA_V, data=T.bytes(0, 1500), security_permissions=T.bytes(0, 64), destination=T.opt(GNADDR), security_profile=T.enum("flexstack.security.security_profiles:SecurityProfile")),
                 "sender_gn_addr": T.opt(GNADDR)},
         requires=["-2 ** 31 <= self.ego_position_vector.latitude < 2 ** 31", "-2 ** 31 <= self.ego_position_vector.longitude < 2 ** 31"],
         opaque=["F_area"],
         ensures={"annex_d_inside": "implies(F_ego(self, request) >= 0, result.value == 1)",
                  "annex_d_outside_never_area_forwarding": "implies(F_ego(self, request) < 0, result.value != 1)",
                  "annex_d_no_sender": "implies(F_ego(self, request) < 0 and sender_gn_addr is None, result.value == 2)"},
         canary={"always_area": "result.value == 1"},
         **SI)


def _ls_ghost(e, st, env):
    from pyvc.values import TupleV
    return st.ghost_append("ls_requests", TupleV([env["sought_gn_addr"], env["buffered_request"]]))


# the location-service request path (timers, retransmission counters, symbolic-key buffers) is ASSUMED here: callers only
# learn that a lookup for the address was started / joined with the request handed over for buffering
contract(f"{RT}:Router.gn_ls_request", props=[], assumed=True,
         shapes={"self": ROUTER, "sought_gn_addr": GNADDR, "buffered_request": T.opt(GNREQ)},
         ghost_effect=_ls_ghost, ensures={"returns_none": "result is None"},
         trusted=["Router.gn_ls_request: assumed contract at call sites (starts or joins a location-service lookup and buffers the request); its body is covered only by the lock-discipline obligations of C15"], **SB)

contract(f"{RT}:Router._distance_m", props=["C07"], shapes={"lat1": T.int(), "lon1": T.int(), "lat2": T.int(), "lon2": T.int()},
         ensures={"nonnegative": "result >= 0"}, **dict(SI, spec_module="spec_geo"))
contract(f"{RT}:Router._cbf_compute_timeout_ms", props=["C06"], shapes={"self": ROUTER, "dist_m": T.float(0)},
         requires=["self.mib.itsGnDefaultMaxCommunicationRange > 0", "0 <= self.mib.itsGnCbfMinTime <= self.mib.itsGnCbfMaxTime"],
         ensures={"between_min_and_max": "self.mib.itsGnCbfMinTime <= result <= self.mib.itsGnCbfMaxTime",
                  "far_senders_first": "implies(dist_m >= self.mib.itsGnDefaultMaxCommunicationRange, result == self.mib.itsGnCbfMinTime)"},
         **dict(SI, spec_module="spec_geo"))

import copy as _copy
ROUTER_CBF = _copy.copy(ROUTER)
ROUTER_CBF.fields = dict(ROUTER.fields, _cbf_buffer=T.keymap("cbf_buffer", T.tuple(GNADDR, T.int(0, 65535)), T.opaque("timer")))
contract(f"{RT}:Router._cbf_timeout", props=["C15", "C06"], shapes={"self": ROUTER_CBF, "cbf_key": T.tuple(GNADDR, T.int(0, 65535)), "full_packet": T.bytes(0, 2000)},
         requires=["map_key0(self._cbf_buffer) == cbf_key"],
         ensures={"sent_at_most_once": "n_sent() <= 1",
                  "sends_only_the_entry_it_removed_itself": "implies(n_sent() == 1, old(map_has(self._cbf_buffer, cbf_key)) and not map_has(self._cbf_buffer, cbf_key) and sent0() == full_packet)",
                  "cancelled_entry_is_never_sent": "implies(not old(map_has(self._cbf_buffer, cbf_key)), n_sent() == 0)"},
         cover=["n_sent() == 1", "n_sent() == 0"], frame_check=False, **SB)
