"""C07: geometric function, area size, Annex D selection (arith mode; trig uninterpreted, floats as reals)."""
from pyvc.contracts import contract, T
from .shapes_geonet import *
from . import models_geonet

S = dict(mode="int", spec_module="spec_geo", float_as_real=True, engine_setup=models_geonet.setup)
AREA_T = T.oneof(T.enum(f"{SAP}:GeoBroadcastHST"), T.enum(f"{SAP}:GeoAnycastHST"))
AREA_V = T.rec(f"{SAP}:Area", a=T.int(0, 65535), b=T.int(0, 65535), angle=T.int(0, 65535),
               latitude=T.int(-2 ** 31, 2 ** 31 - 1), longitude=T.int(-2 ** 31, 2 ** 31 - 1))

contract(f"{RT}:Router.calculate_distance", props=["C07"], shapes={"coord1": T.tuple(T.float(), T.float()), "coord2": T.tuple(T.float(), T.float())},
         returns=T.tuple(T.float(), T.float()),
         ensures={"the_routers_planar_projection": "result[0] == proj_x(coord1[0], coord1[1], coord2[0], coord2[1]) and result[1] == proj_y(coord1[0], coord1[1], coord2[0], coord2[1])"},
         **S)
contract(f"{RT}:Router.gn_geometric_function_f", props=["C07", "C04", "C01"], opaque=["proj_x", "proj_y"],
         shapes={"self": ROUTER, "area_type": AREA_T, "area": AREA_V, "lat": T.int(-2 ** 31, 2 ** 31 - 1),
                 "lon": T.int(-2 ** 31, 2 ** 31 - 1)},
         ensures={"en_302_931_including_azimuth_rotation": "result == F_area(shape_of(area_type), area.a, area.b, area.angle, area.latitude, area.longitude, lat, lon)",
                  "en_302_931_for_unrotated_areas": "implies(area.angle == 0, result == F_area(shape_of(area_type), area.a, area.b, 0, area.latitude, area.longitude, lat, lon))",
                  "zero_sized_is_outside": "implies(area.a == 0 or (area.b == 0 and shape_of(area_type) != 0), result < 0)"},
         canary={"always_inside": "result >= 0"}, **S)
contract(f"{RT}:Router._compute_area_size_m2", props=["C07"], shapes={"area_type": AREA_T, "area": AREA_V},
         ensures={"size": "result == area_size_m2(shape_of(area_type), area.a, area.b)"},
         canary={"rect_as_ellipse": "result == math.pi * area.a * area.b"}, **S)
