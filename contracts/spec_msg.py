"""Spec for C11: data-element ranges of ETSI TS 102 894-2 (CDD) as used by CAM / VAM / DENM, and the mapping rule of
the property: in-range measurements to the resolution of the element, out-of-range ones to the named code."""

# element: (min, max) of the ASN.1 INTEGER constraint
LATITUDE = (-900000000, 900000001)
LONGITUDE = (-1800000000, 1800000001)
ALTITUDE_VALUE = (-100000, 800001)      # -100000 negativeOutOfRange, 800000 positiveOutOfRange, 800001 unavailable
HEADING_VALUE = (0, 3601)
SPEED_VALUE = (0, 16383)                # 16382 outOfRange, 16383 unavailable
SEMI_AXIS_LENGTH = (0, 4095)            # 4094 outOfRange, 4095 unavailable
HEADING_CONFIDENCE = (1, 127)           # 126 outOfRange, 127 unavailable


def within(v, rng):
    return rng[0] <= v <= rng[1]


def scaled(measure, scale, field):
    """field is the measurement in units of 1/scale, truncated toward zero (within one unit)"""
    return field <= measure * scale + 1 and field >= measure * scale - 1


def ref_pos(msg, key):
    return msg[key][key + 'Parameters']['basicContainer']['referencePosition']


def point_ok(p):
    return (-131071 <= p['pathPosition']['deltaLatitude'] <= 131072 and -131071 <= p['pathPosition']['deltaLongitude'] <= 131072
            and 1 <= p['pathDeltaTime'] <= 65534)


def all_points_ok(points):
    return all([point_ok(p) for p in points])


def reconstructed(gdt_msec, ref_ms):
    """the latest instant not after ref_ms (UTC ms) whose generationDeltaTime (ITS ms modulo 65536) is gdt_msec"""
    its_ref = ref_ms - 1072915200000 + 5000
    back = (its_ref - gdt_msec) % 65536
    return ref_ms - back
