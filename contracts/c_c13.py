"""C13: the in-memory filter returns exactly the matching objects (BOUNDED: stores of 0..2 objects, attribute paths
of one and two components, optional attributes); the TinyDB query built from a filter denotes the same predicate."""
import os as _os
from pyvc.contracts import contract, T

LDM = "flexstack.facilities.local_dynamic_map"
DB = f"{LDM}.dictionary_database:DictionaryDataBase"
CLS = f"{LDM}.ldm_classes"
OPS = ["EQUAL", "NOT_EQUAL", "GREATER_THAN", "LESS_THAN", "GREATER_THAN_OR_EQUAL", "LESS_THAN_OR_EQUAL", "LIKE", "NOT_LIKE"]


def obj():
    """a stored record whose message has an optional container `cam` with an optional leaf `a` and an optional
    sub-container `b` with an optional leaf `c`"""
    return T.dict(_open=True, applicationId=T.int(0, 100), timeStamp=T.int(0),
                  dataObject=T.dict(cam=(T.dict(a=(T.int(), "optional"), b=(T.dict(c=(T.int(), "optional")), "optional")), "optional")))


def stmt(attr, ops):
    return T.rec(f"{CLS}:FilterStatement", attribute=T.const(attr), operator=T.enum(f"{CLS}:ComparisonOperators", only=ops), ref_value=T.int())


def flt(attr1, ops1, second=None):
    if second is None:
        return T.rec(f"{CLS}:Filter", filter_statement_1=stmt(attr1, ops1), logical_operator=T.none, filter_statement_2=T.none)
    attr2, ops2, lops = second
    return T.rec(f"{CLS}:Filter", filter_statement_1=stmt(attr1, ops1), logical_operator=T.enum(f"{CLS}:LogicalOperators", only=lops),
                 filter_statement_2=stmt(attr2, ops2))


_PAIR1 = OPS if _os.environ.get("PYVC_TIER") == "thorough" else ("EQUAL", "GREATER_THAN")
_PAIR2 = OPS if _os.environ.get("PYVC_TIER") == "thorough" else ("LESS_THAN_OR_EQUAL", "NOT_EQUAL")
FILTERS = [flt(a, [op]) for a in ("cam.a", "cam.b.c") for op in OPS] + \
          [flt("cam.a", [o1], ("cam.b.c", [o2], [lo])) for o1 in _PAIR1 for o2 in _PAIR2 for lo in ("AND", "OR")]
STORES = [T.list(), T.list(obj()), T.list(obj(), obj())]
S = dict(mode="int", spec_module="spec_ldm", props=["C13", "C14"], frame_check=False)
DBS = T.obj(DB, database=T.opaque("object"), _lock=T.opaque("rlock"), _next_id=T.int(0))

contract(f"{DB}._filter_data", bound="stores of 0..2 objects, attribute paths of 1-2 components, integer values, sampled operator pairs for two-statement filters", shapes={"self": DBS, "data_filter": T.oneof(*FILTERS), "database": T.oneof(*STORES)},
         ensures={"as_many_results_as_matching_objects": "len(result) == n_matching(database, data_filter)",
                  "first_object_returned_first_iff_it_matches": "implies(len(database) > 0 and filter_matches(database[0], data_filter), result[0] is database[0])",
                  "second_object_returned_after_it_iff_it_matches": "implies(len(database) > 1 and filter_matches(database[1], data_filter), ite(filter_matches(database[0], data_filter), result[1] is database[1], result[0] is database[1]))"},
         cover=["len(result) == 2", "len(result) == 0"], **S)

# ------------------------------------------------------------------------------------------- TinyDB back end
from . import models_tinydb
TDB = f"{LDM}.tinydb_database:TinyDB"
TS = dict(S, engine_setup=models_tinydb.setup)
contract(f"{TDB}.parse_filter_statement", bound="attribute paths of 1-2 components, integer reference values, sampled operator pairs for two-statement filters", shapes={"self": T.obj(TDB, database=T.opaque("object"), _lock=T.opaque("rlock")),
                                                   "query": T.opaque("tq"), "filter": T.oneof(*FILTERS)},
         ensures={"query_denotes_the_filter_on_the_stored_message": "model('query_formula', result) == tinydb_filter_matches(filter)"},
         canary={"always_true": "model('query_formula', result)"}, **TS)

# ------------------------------------------------------------------------------------------- type selection, TinyDB search
RQ = f"{CLS}:RequestDataObjectsReq"


def doc(kind):
    return T.dict(_open=True, applicationId=T.int(0, 100), dataObject=T.dictk({kind: T.dict(_open=True, generationDeltaTime=T.int(0, 65535))}))


DOCS = [T.tuple()] + [T.tuple(doc(k)) for k in ("cam", "denm", "vam")] + [T.tuple(doc(a), doc(b)) for a in ("cam", "denm", "vam") for b in ("cam", "vam")]
TYPES = T.oneof(T.tuple(), T.tuple(T.const(2)), T.tuple(T.const(1)), T.tuple(T.const(2), T.const(16)))
contract(f"{RQ}.filter_out_by_data_object_type", shapes={"search_result": T.oneof(*DOCS), "data_object_types": TYPES},
         bound="0..2 records, each a CAM, DENM or VAM; requested type tuples (), (CAM), (DENM), (CAM, VAM)", returns=T.opaque("object"),
         ensures={"exactly_the_records_of_a_requested_type_in_order": "list(result) == [r for r in search_result if message_type_id(r) in data_object_types]"},
         **{k: v for k, v in S.items()})


def setup_tinydb_search(e):
    models_tinydb.setup(e)
    from pyvc.shapes import Maker, expand_oneof
    from pyvc.values import TupleV, Obj

    def h_db(e2, st, o, name, args, kwargs):
        e2.used_assumptions.add("tinydb table: all() / search(q) return some list of 0..2 stored documents (bounded); the query object is recorded")
        if name in ("all", "search"):
            for shape in DOCS:
                s1, v = Maker(e2).make(st, shape, e2.fresh("found"))
                s1 = s1.ghost_append("db_calls", TupleV([StrV(name)] + list(args) + [v]))
                yield s1.alloc(Obj(None, "list", None, list(v.items)))
        else:
            raise NotImplementedError(name)
    e.opaque_handlers["tinydb_table"] = h_db


from pyvc.values import StrV
SEARCH_REQ = T.rec(RQ, application_id=T.int(0, 100), data_object_type=TYPES, priority=T.none, order=T.none,
                   filter=T.oneof(T.none, flt("cam.generationDeltaTime", ["GREATER_THAN"]), flt("cam.generationDeltaTime", ["GREATER_THAN"], ("header.stationId", ["GREATER_THAN_OR_EQUAL"], ["OR"]))))
contract(f"{TDB}.search", shapes={"self": T.obj(TDB, database=T.opaque("tinydb_table"), _lock=T.opaque("rlock")), "data_request": SEARCH_REQ},
         bound="tables answering with 0..2 documents; three representative filters (none, one statement, two statements joined by or)",
         inline=[f"{RQ}.filter_out_by_data_object_type", f"{TDB}.parse_filter_statement"], returns=T.opaque("object"),
         ensures={"one_table_access_with_the_query_built_from_the_filter": "len(ghost('db_calls')) == 1 and (ghost('db_calls')[0][0] == 'all') == (data_request.filter is None)",
                  "the_query_denotes_the_filter": "implies(data_request.filter is not None, model('query_formula', ghost('db_calls')[0][1]) == tinydb_filter_matches(data_request.filter))",
                  "exactly_the_found_documents_of_a_requested_type_in_order": "[r['dataObject'] for r in result] == [r['dataObject'] for r in ghost('db_calls')[0][len(ghost('db_calls')[0]) - 1] if message_type_id(r) in data_request.data_object_type]"},
         **dict(S, engine_setup=setup_tinydb_search))


# ------------------------------------------------------------------------------------------- TinyDB remove: one copy only
def setup_tinydb_remove(e):
    """table.all() answers 0..3 documents; a document is an opaque mapping with an integer doc_id; whether dict(document)
    equals the argument is an arbitrary boolean per document (so every combination of equal copies is explored)"""
    models_tinydb.setup(e)
    import z3
    from pyvc.values import Opaque, Obj, NONE, TupleV
    e.opaque_as_dict = {"tinydb_doc"}
    e.opaque_operators = set(e.opaque_operators) | {"tinydb_docdict"}
    e.used_assumptions.add("tinydb table seen from TinyDB.remove: all() returns 0..3 documents with pairwise distinct doc_id; "
                           "remove(doc_ids=...) is recorded; equality of a stored document with the argument is an arbitrary boolean per document")

    def h_table(e2, st, o, name, args, kwargs):
        if name == "all":
            for n in range(4):
                docs, s1 = [], st
                for i in range(n):
                    did = e2.T.const(e2.fresh("doc_id"))
                    for d in docs:
                        s1 = s1.assume(d.data["doc_id"] != did)
                    eq = z3.Bool(e2.fresh("doc_equals_argument"))
                    docs.append(Opaque("tinydb_doc", _mm._ident(e2, "tinydb_doc", f"doc{i}"), {"doc_id": did, "eq": eq}))
                    s1 = s1.ghost_append("doc_ids", did).ghost_append("doc_eq", eq)
                yield s1.alloc(Obj(None, "list", None, docs))
        elif name == "remove":
            ids = kwargs.get("doc_ids")
            items = e2.iter_items(st, ids)
            if items is None:
                raise _mm.Unsupported("remove(doc_ids=<non-meta>)")
            s1 = st
            for it in items:
                s1 = s1.ghost_append("removed_ids", it)
            yield s1.ghost_count("remove_calls", 1), NONE
        else:
            raise NotImplementedError(name)

    def h_doc(e2, st, o, name, args, kwargs):
        if name == "__as_dict__":
            yield st, Opaque("tinydb_docdict", o.ident, dict(o.data))
        else:
            raise NotImplementedError(name)

    def h_docdict(e2, st, o, name, args, kwargs):
        if name == "__eq__":
            yield st, o.data["eq"]
        elif name == "__ne__":
            yield st, z3.Not(o.data["eq"])
        else:
            raise NotImplementedError(name)
    e.opaque_handlers.update({"tinydb_table_r": h_table, "tinydb_doc": h_doc, "tinydb_docdict": h_docdict})
    orig = e.opaque_attr

    def attr(st, o, name):
        if o.typ == "tinydb_doc" and name == "doc_id":
            return o.data["doc_id"]
        return orig(st, o, name)
    e.opaque_attr = attr


from pyvc import models as _mm
contract(f"{TDB}.remove", bound="tables holding 0..3 documents", props=["C13", "C12"],
         shapes={"self": T.obj(TDB, database=T.opaque("tinydb_table_r"), _lock=T.opaque("rlock")), "data_object": T.opaque("object")},
         ensures={"true_iff_some_stored_document_equals_the_argument": "result == any(ghost('doc_eq'))",
                  "exactly_one_document_is_removed_when_one_matches_and_none_otherwise": "len(ghost('removed_ids')) == (1 if any(ghost('doc_eq')) else 0)",
                  "the_removed_document_is_the_first_equal_one": "implies(len(ghost('removed_ids')) >= 1, ghost('removed_ids')[0] == [ghost('doc_ids')[i] for i in range(len(ghost('doc_ids'))) if ghost('doc_eq')[i]][0])"},
         cover=["result", "not result", "len(ghost('doc_ids')) == 3"],
         **{k: v for k, v in dict(S, engine_setup=setup_tinydb_remove).items() if k != "props"})
