"""C02 / C20 / C01: source operations of the GeoNetworking router.  Postconditions are stated on the octets handed to
LinkLayer.send (ghost ether `sent`), field by field, from DESIGN Appendix A.  Codec mode."""
from pyvc.contracts import contract, T
from .shapes_geonet import *
from . import models_geonet

S = dict(mode="bv", spec_module="spec_geonet", engine_setup=models_geonet.setup, native_setup="native_geonet:setup")
PRE = ["mib_ok(self.mib)", "lpv_valid(self.ego_position_vector)"]

contract(f"{RT}:Router.gn_data_request_beacon", props=["C02", "C20"], shapes={"self": ROUTER}, requires=PRE,
         ensures={"at_most_one_frame": "n_sent() <= 1",
                  "sent_iff_link": "(n_sent() == 1) == (self.link_layer is not None) or n_sent() == 0",
                  "basic_hop_limit_1": "implies(n_sent() == 1, frame_basic_ok(sent0(), 1, 1))",
                  "lifetime_is_best_for_default": "implies(n_sent() == 1, frame_lifetime_ms(sent0()) == best_ms(self.mib.itsGnDefaultPacketLifetime * 1000))",
                  "common_beacon": "implies(n_sent() == 1, sent0()[4:12] == common_int(0, 1, 0, 0, self.mib.itsGnIsMobile.value, 0, 1).to_bytes(8, 'big'))",
                  "so_pv_is_ego": "implies(n_sent() == 1, sent0()[12:36] == lpv_int(self.ego_position_vector).to_bytes(24, 'big'))",
                  "length_36": "implies(n_sent() == 1, len(sent0()) == 36)"}, **S)

SHB_PRE = PRE + ["request_ok(request)", "0 <= request.its_aid < 2 ** 32"]
_PLAIN = "n_sent() == 1 and self.mib.itsGnSecurity.value == 0"
_SEC = "n_sent() == 1 and self.mib.itsGnSecurity.value == 1"
_TBS = "common_bytes(request.upper_protocol_entity, request.packet_transport_type.header_type, request.packet_transport_type.header_subtype, request.traffic_class, self.mib.itsGnIsMobile.value, request.length, 1) + lpv_int(self.ego_position_vector).to_bytes(24, 'big') + bytes(4) + request.data"
contract(f"{RT}:Router.gn_data_request_shb", props=["C02", "C20", "C01", "C05", "C03"], shapes={"self": ROUTER, "request": gnreq(PTT_SHB)},
         requires=SHB_PRE, raises={"ValueError": "self.mib.itsGnSecurity.value == 1 and self.sign_service is None"},
         ensures={"at_most_one_frame": "n_sent() <= 1",
                  "accepted_iff_handed_over": "(result.result_code.value == 1) == (n_sent() == 1 or self.link_layer is None)",
                  "basic_hop_limit_1": f"implies(n_sent() == 1, frame_basic_ok(sent0(), 1 if self.mib.itsGnSecurity.value == 0 else 2, 1))",
                  "lifetime_is_best_for_request": "implies(n_sent() == 1, frame_lifetime_ms(sent0()) == best_ms(requested_ms_int(request.max_packet_lifetime, self.mib.itsGnDefaultPacketLifetime)))",
                  "common_header": f"implies({_PLAIN}, sent0()[4:12] == common_bytes(request.upper_protocol_entity, request.packet_transport_type.header_type, request.packet_transport_type.header_subtype, request.traffic_class, self.mib.itsGnIsMobile.value, request.length, 1))",
                  "so_pv_is_ego": f"implies({_PLAIN}, sent0()[12:36] == lpv_int(self.ego_position_vector).to_bytes(24, 'big'))",
                  "media_dependent_zero": f"implies({_PLAIN}, sent0()[36:40] == bytes(4))",
                  "payload": f"implies({_PLAIN}, sent0()[40:] == request.data)",
                  "with_security_enabled_exactly_one_signing_request": "implies(self.mib.itsGnSecurity.value == 1, len(ghost('sign_calls')) == 1) and implies(self.mib.itsGnSecurity.value == 0, len(ghost('sign_calls')) == 0)",
                  "cam_and_vam_are_signed_with_the_awareness_profile_others_with_the_generic_one": "implies(self.mib.itsGnSecurity.value == 1, ghost('sign_calls')[0][0] == ('sign_cam' if request.security_profile.value == 1 or request.security_profile.value == 3 else 'sign_request'))",
                  "what_is_signed_is_common_header_source_position_and_payload": f"implies(self.mib.itsGnSecurity.value == 1, ghost('sign_calls')[0][1].tbs_message == {_TBS} and ghost('sign_calls')[0][1].its_aid == request.its_aid and ghost('sign_calls')[0][1].permissions == request.security_permissions)",
                  "secured_frame_is_basic_header_then_the_signed_message": f"implies({_SEC}, sent0()[4:] == signed_message_of_call())"},
         canary={"mhl_from_request": "implies(n_sent() == 1 and self.mib.itsGnSecurity.value == 0, be(sent0(), 10, 1) == request.max_hop_limit)"},
         cover=["n_sent() == 1 and self.mib.itsGnSecurity.value == 0", "n_sent() == 1 and self.mib.itsGnSecurity.value == 1", "n_sent() == 0"], **S)

# ---------------------------------------------------------------- GBC / GAC source operation (unsecured profiles)
GBC_PRE = PRE + ["request_ok(request)", "area_ok(request.area)", "self.mib.itsGnMaxGeoAreaSize >= 0", "0 <= request.its_aid < 2 ** 32"]
_DENM = "request.security_profile.value == 2"
_GBC_INNER = ("common_bytes(request.upper_protocol_entity, request.packet_transport_type.header_type, request.packet_transport_type.header_subtype, "
              "request.traffic_class, self.mib.itsGnIsMobile.value, request.length, hop_limit_for(request, self.mib)) "
              "+ gbc_ext_bytes(self.sequence_number, self.ego_position_vector, request.area) + request.data")
GBC_POST = {
    "at_most_one_frame": "n_sent() <= 1",
    "oversize_refused": "implies(area_size_m2(request.packet_transport_type.header_subtype.value, request.area.a, request.area.b) > self.mib.itsGnMaxGeoAreaSize * 1000000, result.result_code.value == 6 and n_sent() == 0)",
    "scope_code_only_when_oversize": "implies(result.result_code.value == 6, area_size_m2(request.packet_transport_type.header_subtype.value, request.area.a, request.area.b) > self.mib.itsGnMaxGeoAreaSize * 1000000)",
    "sequence_number_consumed_once": "implies(result.result_code.value != 6, self.sequence_number == (old(self.sequence_number) + 1) % 65535)",
    "basic_hop_limit": "implies(n_sent() == 1, frame_basic_ok(sent0(), 2 if request.security_profile.value == 2 else 1, hop_limit_for(request, self.mib)))",
    "lifetime_is_best_for_request": "implies(n_sent() == 1, frame_lifetime_ms(sent0()) == best_ms(requested_ms_int(request.max_packet_lifetime, self.mib.itsGnDefaultPacketLifetime)))",
    "denm_profile_is_signed_once_with_the_denm_profile_other_profiles_not_at_all": "len(ghost('sign_calls')) == (1 if request.security_profile.value == 2 and area_size_m2(request.packet_transport_type.header_subtype.value, request.area.a, request.area.b) <= self.mib.itsGnMaxGeoAreaSize * 1000000 else 0) and implies(len(ghost('sign_calls')) == 1, ghost('sign_calls')[0][0] == 'sign_denm')",
    "what_is_signed_is_common_header_extended_header_and_payload_at_the_ego_position": "implies(len(ghost('sign_calls')) == 1, ghost('sign_calls')[0][1].tbs_message == " + _GBC_INNER + " and ghost('sign_calls')[0][1].its_aid == request.its_aid and ghost('sign_calls')[0][1].generation_location['latitude'] == self.ego_position_vector.latitude and ghost('sign_calls')[0][1].generation_location['longitude'] == self.ego_position_vector.longitude)",
    "secured_frame_is_basic_header_then_the_signed_message": "implies(n_sent() == 1 and request.security_profile.value == 2, sent0()[4:] == signed_message_of_call())",
    "common_header": "implies(n_sent() == 1 and request.security_profile.value != 2, sent0()[4:12] == common_bytes(request.upper_protocol_entity, request.packet_transport_type.header_type, request.packet_transport_type.header_subtype, request.traffic_class, self.mib.itsGnIsMobile.value, request.length, hop_limit_for(request, self.mib)))",
    "extended_header": "implies(n_sent() == 1 and request.security_profile.value != 2, sent0()[12:56] == gbc_ext_bytes(self.sequence_number, self.ego_position_vector, request.area))",
    "payload": "implies(n_sent() == 1 and request.security_profile.value != 2, sent0()[56:] == request.data)",
}
for _name, _ptt in (("gbc", PTT_GBC), ("gac", PTT_GAC)):
    contract(f"{RT}:Router.gn_data_request_{_name}", props=["C02", "C20", "C01", "C07", "C05"],
             shapes={"self": ROUTER, "request": gnreq(_ptt)}, requires=GBC_PRE, modifies=["self.sequence_number"],
             may_raise=["NotImplementedError"],      # DENM profile without a sign service (after a sequence number was consumed)
             ensures=GBC_POST, cover=["n_sent() == 1", "result.result_code.value == 6", "n_sent() == 1 and request.security_profile.value == 2"],
             inline=[f"{RT}:Router.gn_data_request_gbc"] if _name == "gac" else [],
             canary={"default_hop_limit_always": "implies(n_sent() == 1, be(sent0(), 3, 1) == self.mib.itsGnDefaultHopLimit)"},
             **S)

# ---------------------------------------------------------------- GUC source operation
def _guc_ghost(e, st, env):
    from pyvc.values import TupleV, StrV
    return st.ghost_append("reissued", env["request"])


GUC_PRE = PRE + ["request_ok(request)", "request.destination is not None"]
contract(f"{RT}:Router.gn_data_request_guc", props=["C02", "C20", "C01"],
         shapes={"self": ROUTER, "request": gnreq(PTT_GUC)}, requires=GUC_PRE, modifies=["self.sequence_number"],
         ghost_effect=_guc_ghost,
         ensures={
             "at_most_one_frame": "n_sent() <= 1",
             "accepted_unless_send_fails": "implies(n_sent() == 1, result.result_code.value == 1)",
             "basic_hop_limit": "implies(n_sent() == 1 and n_ls_requests() == 0, frame_basic_ok(sent0(), 1, hop_limit_for(request, self.mib)))",
             "lifetime_is_best_for_request": "implies(n_sent() == 1 and n_ls_requests() == 0, frame_lifetime_ms(sent0()) == best_ms(requested_ms_int(request.max_packet_lifetime, self.mib.itsGnDefaultPacketLifetime)))",
             "common_header": "implies(n_sent() == 1 and n_ls_requests() == 0, sent0()[4:12] == common_bytes(request.upper_protocol_entity, request.packet_transport_type.header_type, request.packet_transport_type.header_subtype, request.traffic_class, self.mib.itsGnIsMobile.value, request.length, hop_limit_for(request, self.mib)))",
             "so_pv_is_ego": "implies(n_sent() == 1 and n_ls_requests() == 0, sent0()[16:40] == lpv_int(self.ego_position_vector).to_bytes(24, 'big') and sent0()[12:14] == self.sequence_number.to_bytes(2, 'big') and sent0()[14:16] == bytes(2))",
             "de_pv_is_destination": "implies(n_sent() == 1 and n_ls_requests() == 0, sent0()[42:48] == request.destination.mid.mid)",
             "payload": "implies(n_sent() == 1 and n_ls_requests() == 0, sent0()[60:] == request.data)",
             "unknown_destination_starts_lookup": "implies(n_ls_requests() == 1, n_sent() == 0 and result.result_code.value == 1)"},
         cover=["n_sent() == 1 and n_ls_requests() == 0", "n_ls_requests() == 1"], **S)
