"""Native stand-ins used when a solver counter-model of a Router obligation is replayed on the real code."""
import spec_geonet


class StubLinkLayer:
    def __init__(self):
        self.sent = []

    def send(self, packet):
        self.sent.append(bytes(packet))


class StubEntry:
    def __init__(self, f):
        self.__dict__.update(f)


class StubLocationTable:
    def __init__(self):
        self.updates = []

    def get_neighbours(self):
        return []

    def get_entry(self, addr):
        return None

    def ensure_entry(self, addr):
        return StubEntry({"ls_pending": False, "is_neighbour": False})

    def refresh_table(self):
        pass

    def __getattr__(self, name):
        if name.startswith("new_") and name.endswith("_packet"):
            return lambda *a, **k: self.updates.append((name,) + a)
        raise AttributeError(name)


def setup(inputs):
    """replace opaque collaborators of a Router by recording stubs; wire ghost() of the spec module to them"""
    r = inputs.get("self")
    logs = {"sent": [], "callbacks": [], "lt_updates": []}
    if r is not None and hasattr(r, "link_layer"):
        if r.link_layer is not None:
            ll = StubLinkLayer()
            ll.sent = logs["sent"]
            object.__setattr__(r, "link_layer", ll)
        lt = StubLocationTable()
        lt.updates = logs["lt_updates"]
        object.__setattr__(r, "location_table", lt)
        if getattr(r, "indication_callback", None) is not None:
            object.__setattr__(r, "indication_callback", lambda ind: logs["callbacks"].append((None, ind)))
        import threading
        for name in ("ego_position_vector_lock", "sequence_number_lock", "_ls_lock", "_cbf_lock"):
            object.__setattr__(r, name, threading.RLock())
        if getattr(r, "_beacon_reset_event", None) is not None:
            object.__setattr__(r, "_beacon_reset_event", threading.Event())
        for name in ("_ls_timers", "_ls_retransmit_counters", "_ls_packet_buffers", "_cbf_buffer"):
            if not hasattr(r, name):
                object.__setattr__(r, name, {})
    spec_geonet.ghost = lambda name: tuple(logs.get(name, ()))
    return inputs
