"""C17: DEN service - repetition schedule, stable and unique event identity, area at the event position."""
import z3
from pyvc.contracts import contract, T
from pyvc.values import TupleV, NONE
from .c_c10 import VEH, setup as _setup10, CT

DT = "flexstack.facilities.decentralized_environmental_notification_service.denm_transmission_management"
DR = "flexstack.facilities.decentralized_environmental_notification_service.denm_reception_management"
RH = "flexstack.applications.road_hazard_signalling_service.service_access_point"
EVPOS = T.dict(_open=True, latitude=T.int(-900000000, 900000001), longitude=T.int(-1800000000, 1800000001))
DENREQ = T.rec(f"{RH}:DENRequest", denm_interval=T.int(1, 10000), time_period=T.int(0, 60000), event_position=EVPOS,
               priority_level=T.enum(f"{RH}:PriorityLevel"), relevance_distance=T.opt(T.str), relevance_traffic_direction=T.opt(T.str),
               rhs_cause_code=T.opt(T.str), rhs_subcause_code=T.opt(T.int()), rhs_event_speed=T.opt(T.int()),
               rhs_vehicle_type=T.opt(T.int()), lcrw_cause_code=T.opt(T.str), lcrw_subcause_code=T.opt(T.int()))
DTM = T.obj(f"{DT}:DENMTransmissionManagement", logging=T.opaque("logger"), btp_router=T.opaque("btp_router"), vehicle_data=VEH,
            denm_coder=T.opaque("denm_coder"), sequence_number=T.int(0, 65535), _sequence_lock=T.lock)
S = dict(mode="int", spec_module="spec_denm", props=["C17"], float_as_real=True, engine_setup=_setup10, frame_check=False)
D = f"{DT}:DENMTransmissionManagement"
M = f"{DT}:DecentralizedEnvironmentalNotificationMessage"
MSG = T.obj(M, denm=T.dict(_open=True, header=T.dict(_open=True, stationId=T.int()),
                           denm=T.dict(_open=True, management=T.dict(_open=True, actionId=T.dict(originatingStationId=T.int(), sequenceNumber=T.int()),
                                                                      eventPosition=EVPOS, referenceTime=T.int(), stationType=T.int(), TransmissionInterval=T.int()))),
            sequence_number=T.int(0, 65535))


def _tx_ghost(e, st, env):
    d = st.obj(env["denm_to_send"]).f["denm"]
    def leaf(*path):
        cur = d
        for k in path:
            outs = list(e.subscript(st, cur, e.lift(k)))
            cur = outs[0][1]
        return cur
    st = st.ghost_count("denms", e.intval(1))
    st = st.ghost_set("last_seq", leaf("denm", "management", "actionId", "sequenceNumber"))
    st = st.ghost_set("last_station", leaf("denm", "management", "actionId", "originatingStationId"))
    st = st.ghost_set("last_reftime", leaf("denm", "management", "referenceTime"))
    return st


contract(f"{D}._next_action_sequence_number", shapes={"self": DTM}, modifies=["self.sequence_number"],
         ensures={"fresh_per_event": "result == old(self.sequence_number) and self.sequence_number == (old(self.sequence_number) + 1) % 65536",
                  "range": "0 <= result <= 65535"}, **S)
contract(f"{M}.fullfill_with_vehicle_data", shapes={"self": MSG, "vehicle_data": VEH}, modifies=["self.sequence_number", "self.denm"],
         ensures={"action_id": "self.denm['denm']['management']['actionId']['sequenceNumber'] == old(self.sequence_number) and self.denm['denm']['management']['actionId']['originatingStationId'] == vehicle_data.station_id",
                  "station_identity": "self.denm['header']['stationId'] == vehicle_data.station_id"}, **S)
contract(f"{D}.transmit_denm", shapes={"self": DTM, "denm_to_send": MSG}, ghost_effect=_tx_ghost, callsite_ensures=[],
         may_raise=["Exception"],
         ensures={"one_btp_request": "len(ghost('btp_requests')) == 1",
                  "geo_broadcast_circle_at_event_position": "req0().gn_packet_transport_type.header_type.value == 4 and req0().gn_packet_transport_type.header_subtype.value == 0 and req0().gn_area.latitude == denm_to_send.denm['denm']['management']['eventPosition']['latitude'] and req0().gn_area.longitude == denm_to_send.denm['denm']['management']['eventPosition']['longitude'] and req0().gn_area.a > 0",
                  "den_port_and_profile": "req0().destination_port == 2002 and req0().btp_type.value == 2 and req0().security_profile.value == 2 and req0().its_aid == 37",
                  "the_message_itself_is_encoded": "ghost('encoded')[0] is denm_to_send.denm"}, **S)
contract(f"{D}.trigger_denm_messages", shapes={"self": DTM, "denm_request": DENREQ}, modifies=["self.sequence_number"],
         inline=[f"{M}.fullfill_with_denrequest"],
         requires=["now() >= 1072915200"],
         may_raise=["Exception"],
         loops={"while#0": {"invariant": ["transmission_time == n_denms() * denm_request.denm_interval", "n_denms() >= 0",
                                          "gcount('slept') * 1000 == transmission_time",
                                          "implies(n_denms() > 0, transmission_time - denm_request.denm_interval < denm_request.time_period)",
                                          "implies(n_denms() > 0, gcount('last_seq') == action_sequence_number and gcount('last_station') == self.vehicle_data.station_id)"],
                            "variant": "denm_request.time_period - transmission_time + denm_request.denm_interval",
                            "counters": ["denms", "slept", "last_seq", "last_station", "last_reftime"], "real_counters": ["slept"]}},
         ensures={"ceil_T_over_i_messages": "is_ceil_div(n_denms(), denm_request.time_period, denm_request.denm_interval)",
                  "one_action_id_for_all_repetitions": "implies(n_denms() > 0, gcount('last_seq') == old(self.sequence_number) and gcount('last_station') == self.vehicle_data.station_id)",
                  "event_consumes_one_sequence_number": "self.sequence_number == (old(self.sequence_number) + 1) % 65536",
                  "spaced_by_the_interval": "gcount('slept') * 1000 == n_denms() * denm_request.denm_interval"},
         **S)

contract("harness_denm:two_events", shapes={"m": DTM}, modifies=["m.sequence_number"],
         ensures={"different_events_different_action_ids": "result[0] != result[1]"}, **S)
contract(f"{M}.fullfill_with_denrequest", shapes={"self": MSG, "request": DENREQ}, modifies=["self.denm"], requires=["now() >= 1072915200"],
         callsite_ensures=["interval", "reference_time_is_now"],
         ensures={"event_position_of_the_request": "self.denm['denm']['management']['eventPosition'] is request.event_position",
                  "reference_time_is_now": "self.denm['denm']['management']['referenceTime'] == int((now() - 1072915200 + 5) * 1000)",
                  "interval": "self.denm['denm']['management']['TransmissionInterval'] == request.denm_interval",
                  "identity_untouched": "self.denm['denm']['management']['actionId'] is old(self.denm['denm']['management']['actionId']) and self.denm['header'] is old(self.denm['header'])"}, **S)
contract(f"{D}.send_collision_risk_warning_denm", shapes={"self": DTM, "denm_request": DENREQ}, modifies=["self.sequence_number"],
         requires=["now() >= 1072915200"], may_raise=["Exception"],
         inline=[f"{D}.transmit_denm", f"{M}.fullfill_with_vehicle_data", f"{M}.fullfill_with_collision_risk_warning"],
         ensures={"own_action_id": "the_denm()['denm']['management']['actionId']['sequenceNumber'] == old(self.sequence_number) and the_denm()['denm']['management']['actionId']['originatingStationId'] == self.vehicle_data.station_id",
                  "event_consumes_one_sequence_number": "self.sequence_number == (old(self.sequence_number) + 1) % 65536",
                  "circle_at_event_position": "implies(len(ghost('btp_requests')) == 1, req0().gn_area.latitude == denm_request.event_position['latitude'] and req0().gn_area.longitude == denm_request.event_position['longitude'] and req0().destination_port == 2002)"},
         **S)

# ---------------------------------------------------------------- reception: stored at the event position
DRM = T.obj(f"{DR}:DENMReceptionManagement", logging=T.opaque("logger"), denm_coder=T.opaque("denm_coder"), btp_router=T.opaque("btp_router"),
            ldm_facility=T.opt(T.opaque("ldm_facility")))
RXDENM = T.dict(_open=True, header=T.dict(_open=True, stationId=T.int()),
                denm=T.dict(_open=True, management=T.dict(_open=True, referenceTime=T.int(), eventPosition=T.dict(
                    _open=True, latitude=T.int(-900000000, 900000001), longitude=T.int(-1800000000, 1800000001),
                    altitude=T.dict(_open=True, altitudeValue=T.int(-100000, 800001))))))


def h_ldm_facility(e, st, o, name, args, kwargs):
    from pyvc.values import Opaque
    raise __import__("pyvc.values").values.Unsupported(f"ldm_facility.{name}")


def opaque_attr_ldm(e):
    from pyvc.values import Opaque
    orig = e.opaque_attr

    def attr(st, o, name):
        if o.typ == "ldm_facility" and name == "if_ldm_3":
            return Opaque("if_ldm_3", o.ident)
        return orig(st, o, name)
    e.opaque_attr = attr


def h_if_ldm_3(e, st, o, name, args, kwargs):
    e.used_assumptions.add("IF.LDM.3 seen from the DEN service: add_provider_data records the request in a ghost log (the LDM is verified under C12)")
    if name == "add_provider_data":
        yield st.ghost_append("ldm_adds", args[0]), NONE
    else:
        raise __import__("pyvc.values").values.Unsupported(f"if_ldm_3.{name}")


def setup_rx(e):
    _setup10(e)
    opaque_attr_ldm(e)
    e.opaque_handlers["if_ldm_3"] = h_if_ldm_3


contract(f"{DR}:DENMReceptionManagement.feed_ldm", shapes={"self": DRM, "denm": RXDENM},
         requires=["now() >= 1072915200"],
         ensures={"stored_iff_ldm_present": "(len(ghost('ldm_adds')) == 1) == (self.ldm_facility is not None)",
                  "stored_at_the_event_position": "implies(len(ghost('ldm_adds')) == 1, stored().location.reference_position.latitude == denm['denm']['management']['eventPosition']['latitude'] and stored().location.reference_position.longitude == denm['denm']['management']['eventPosition']['longitude'])",
                  "stored_object_is_the_denm": "implies(len(ghost('ldm_adds')) == 1, stored().data_object is denm and stored().application_id == 1)"},
         **dict(S, engine_setup=setup_rx))


# ------------------------------------------------------------------------------------------- reception
def setup_rx2(e):
    setup_rx(e)
    from pyvc.shapes import Maker
    from pyvc.values import RaiseV, TupleV

    def h_rx_coder(e2, st, o, name, args, kwargs):
        e2.used_assumptions.add("DENM coder on reception: decode returns some DENM dictionary (management container with any optional "
                                "termination field) or raises")
        if name == "decode":
            s1, d = Maker(e2).make(st, RXDENM_T, e2.fresh("decoded_denm"))
            yield s1.ghost_append("decoded", TupleV([args[0], d])), d
            yield st, RaiseV(e2.exc("Exception", "decode error"))
        else:
            raise NotImplementedError(name)
    e.opaque_handlers["denm_rx_coder"] = h_rx_coder
    orig = e.opaque_attr

    def attr(st, o, name):
        if o.typ == "btp_indication" and name == "data":
            return o.data["data"]
        return orig(st, o, name)
    e.opaque_attr = attr


RXDENM_T = T.dict(_open=True, header=T.dict(_open=True, stationId=T.int()),
                  denm=T.dict(_open=True, management=T.dict(referenceTime=T.int(), termination=(T.strs("isCancellation", "isNegation"), "optional"),
                                                            eventPosition=T.dict(_open=True, latitude=T.int(-900000000, 900000001), longitude=T.int(-1800000000, 1800000001),
                                                                                 altitude=T.dict(_open=True, altitudeValue=T.int(-100000, 800001))))))
DRM2 = T.obj(f"{DR}:DENMReceptionManagement", logging=T.opaque("logger"), denm_coder=T.opaque("denm_rx_coder"), btp_router=T.opaque("btp_router"),
             ldm_facility=T.opt(T.opaque("ldm_facility")))
BTPIND = T.obj("flexstack.btp.service_access_point:BTPDataIndication", data=T.bytes(0, 2000))
contract(f"{DR}:DENMReceptionManagement.reception_callback", shapes={"self": DRM2, "btp_indication": T.opaque("btp_indication", data=T.bytes(0, 2000))},
         requires=["now() >= 1072915200"], may_raise=["Exception"], inline=[f"{DR}:DENMReceptionManagement.feed_ldm"],
         ensures={"every_decoded_denm_is_stored_in_the_ldm_whatever_optional_fields_it_carries": "implies(len(ghost('decoded')) == 1 and self.ldm_facility is not None, len(ghost('ldm_adds')) == 1 and stored().data_object is ghost('decoded')[0][1])",
                  "stored_at_its_event_position": "implies(len(ghost('ldm_adds')) == 1, stored().location.reference_position.latitude == ghost('decoded')[0][1]['denm']['management']['eventPosition']['latitude'] and stored().location.reference_position.longitude == ghost('decoded')[0][1]['denm']['management']['eventPosition']['longitude'])",
                  "decodes_the_received_payload": "implies(len(ghost('decoded')) == 1, ghost('decoded')[0][0] == btp_indication.data)"},
         cover=["len(ghost('ldm_adds')) == 1"], **dict(S, engine_setup=setup_rx2))
