"""Spec for C18: representation invariant of the VRU clustering state machine (TS 103 300-3 clause 5.4)."""
from flexstack.facilities.vru_awareness_service.vru_clustering import VBSState, _JoinSubstate, _LeaveSubstate

JOIN_NOTIFICATION_S = 3.0
JOIN_SUCCESS_S = 0.5
LEAVE_NOTIFICATION_S = 1.0
BREAKUP_WARNING_S = 3.0
CLUSTER_CONTINUITY_S = 2.0


def is_leader(m):
    return m._state is VBSState.VRU_ACTIVE_CLUSTER_LEADER


def is_passive(m):
    return m._state is VBSState.VRU_PASSIVE


def inv(m):
    """leader exactly when it owns a cluster with id 1..255 and cardinality >= 1; passive exactly when joined to a
    cluster with a known leader and an armed leader-lost timer; sub-state timers armed while their sub-state is"""
    return (is_leader(m) == (m._cluster is not None)
            and (m._cluster is None or (1 <= m._cluster.cluster_id <= 255 and m._cluster.cardinality >= 1))
            and is_passive(m) == (m._joined_cluster_id is not None)
            and is_passive(m) == (m._leader_station_id is not None)
            and is_passive(m) == (m._last_leader_vam_time is not None)
            and (m._join_substate is _JoinSubstate.JOINED) == is_passive(m)
            and (m._join_substate not in (_JoinSubstate.NOTIFY, _JoinSubstate.WAITING) or m._join_started is not None)
            and (m._join_substate not in (_JoinSubstate.NOTIFY, _JoinSubstate.WAITING) or m._join_target_cluster_id is not None)
            and (m._join_substate not in (_JoinSubstate.CANCELLED, _JoinSubstate.FAILED) or m._join_leave_started is not None)
            and (m._leave_substate is not _LeaveSubstate.NOTIFY or m._leave_started is not None))


def transmits(m):
    """individual VAM transmission is not suppressed"""
    return not (m._state is VBSState.VRU_IDLE) and (not is_passive(m) or m._leave_substate is _LeaveSubstate.NOTIFY)


def advertises_cluster(vam, cid):
    p = vam['vam']['vamParameters']
    return ('vruClusterInformationContainer' in p
            and 'clusterId' in p['vruClusterInformationContainer']['vruClusterInformation']
            and p['vruClusterInformationContainer']['vruClusterInformation']['clusterId'] == cid)


def announces_breakup(vam):
    """a break-up announcement other than the 'reception of CPM containing cluster' reason (which keeps members passive)"""
    p = vam['vam']['vamParameters']
    if 'vruClusterOperationContainer' not in p:
        return False
    op = p['vruClusterOperationContainer']
    if 'clusterBreakupInfo' not in op:
        return False
    b = op['clusterBreakupInfo']
    return 'clusterBreakupReason' not in b or b['clusterBreakupReason'] != 'receptionOfCpmContainingCluster'


def has_breakup_info(vam):
    p = vam['vam']['vamParameters']
    return 'vruClusterOperationContainer' in p and 'clusterBreakupInfo' in p['vruClusterOperationContainer']
