"""Assumed models of the cryptographic and coding collaborators of the security services (C03 / C05 / C09):
the OER coder, ECDSA back end, certificates and the certificate library are opaque - what is proved is FlexStack's
use of them (DESIGN §5 C03)."""
import z3
from pyvc.values import (NONE, Opt, StrV, Rec, Ref, TupleV, BytesV, Opaque, RaiseV, ExcV, Obj, Unsupported)
from pyvc.shapes import Maker, T
from pyvc import models as _m

SIGNED = T.dict(_open=True, content=T.tuple(T.const("signedData"), T.dict(
    _open=True,
    tbsData=T.dict(_open=True,
                   payload=T.dict(_open=True, data=T.dict(_open=True, content=T.tuple(T.const("unsecuredData"), T.bytes(0, 2000)))),
                   headerInfo=(T.dict(psid=(T.int(0, 2 ** 32), "optional"), generationTime=(T.int(0, 2 ** 63), "optional"),
                                      generationLocation=(T.opaque("object"), "optional"), p2pcdLearningRequest=(T.opaque("object"), "optional"),
                                      missingCrlIdentifier=(T.opaque("object"), "optional"), expiryTime=(T.opaque("object"), "optional"),
                                      encryptionKey=(T.opaque("object"), "optional"), inlineP2pcdRequest=(T.opaque("object"), "optional"),
                                      requestedCertificate=(T.opaque("object"), "optional")), "optional")),
    signer=T.oneof(T.tuple(T.const("digest"), T.bytes_n(8)),
                   T.tuple(T.const("certificate"), T.oneof(T.list(), T.list(T.dict(_open=True, issuer=(T.tuple(T.strs("self", "sha256AndDigest", "sha384AndDigest"), T.opt(T.bytes_n(8))), "optional"))),
                                                            T.list(T.opaque("object"), T.opaque("object")))),
                   T.tuple(T.const("self"), T.none)),
    signature=T.opaque("signature"))))


def h_sec_coder(e, st, o, name, args, kwargs):
    e.used_assumptions.add("security coder (asn1tools OER): decode returns some EtsiTs103097Data-Signed value or raises; encode_* are deterministic functions recorded in ghost logs")
    if name == "decode_etsi_ts_103097_data_signed":
        yield st, RaiseV(e.exc("Exception", "decode error"))
        from pyvc.shapes import expand_oneof
        for shape in expand_oneof(SIGNED):
            s1, v = Maker(e).make(st, shape, e.fresh("decoded"))
            yield s1.ghost_append("decoded", TupleV([args[0], v])), v
    elif name == "encode_to_be_signed_data":
        v, cs = e.sym_bytes(e.fresh("tbs_bytes"), 0, 4000)
        s1 = st
        for c in cs:
            s1 = s1.assume(c)
        yield s1.ghost_append("tbs_encoded", TupleV([args[0], v])), v
    elif name == "encode_etsi_ts_103097_data_signed":
        v, cs = e.sym_bytes(e.fresh("secured_bytes"), 0, 4000)
        s1 = st
        for c in cs:
            s1 = s1.assume(c)
        yield s1.ghost_append("secured", TupleV([args[0], v])), v
    else:
        raise Unsupported(f"security coder .{name}")


def h_backend(e, st, o, name, args, kwargs):
    e.used_assumptions.add("ECDSA back end: verify_with_pk returns an arbitrary boolean (sig_ok), recorded with its arguments")
    if name == "verify_with_pk":
        b = z3.Bool(e.fresh("sig_ok"))
        yield st.ghost_append("sig_checks", TupleV([kwargs.get("data", args[0] if args else NONE), kwargs.get("signature", NONE), kwargs.get("pk", NONE), b])), b
    else:
        raise Unsupported(f"backend.{name}")


def _ticket(e, st, base):
    from pyvc.shapes import Maker
    cert = T.opt(T.dict(_open=True, toBeSigned=T.dict(_open=True, verifyKeyIndicator=T.tuple(T.strs("verificationKey", "reconstructionValue"), T.opaque("public_key")))))
    s1, c = Maker(e).make(st, cert, e.fresh(base + ".certificate"))
    return s1, Opaque("certificate", _m._ident(e, "certificate", base), {"certificate": c})


def h_cert_library(e, st, o, name, args, kwargs):
    e.used_assumptions.add("CertificateLibrary seen from VerifyService: lookups return an arbitrary ticket or None (the store invariant is C09's)")
    if name in ("verify_sequence_of_certificates", "get_authorization_ticket_by_hashedid8"):
        s1, t = _ticket(e, st, "ticket")
        absent = z3.Bool(e.fresh("ticket_absent"))
        yield s1.ghost_append("ticket_lookups", TupleV([StrV(name), args[0], Opt(absent, t)])), Opt(absent, t)
    else:
        raise Unsupported(f"certificate library .{name}")


def h_certificate(e, st, o, name, args, kwargs):
    if name == "verify":
        b = z3.Bool(e.fresh("chain_ok"))
        yield st.ghost_append("cert_verified", TupleV([o, b])), b
    elif name == "is_authorization_ticket":
        b = z3.Bool(e.fresh("is_at"))
        yield st.ghost_append("at_checked", TupleV([o, b])), b
    elif name == "as_hashedid8":
        yield st, BytesV([("int", z3.BitVec(f"hashedid8.{o.ident}", 64), 8)])
    elif name == "sign_message":
        yield st.ghost_append("signed_with", TupleV([o, args[1]])), Opaque("signature", _m._ident(e, "signature", "sig"))
    elif name == "get_list_of_its_aid":
        raise Unsupported("certificate.get_list_of_its_aid (model)")
    else:
        raise Unsupported(f"certificate .{name}")


def setup(e):
    e.const_overrides[("flexstack.security.certificate", "SECURITY_CODER")] = Opaque("sec_coder")
    e.opaque_handlers.update({"sec_coder": h_sec_coder, "ecdsa_backend": h_backend, "cert_library": h_cert_library,
                              "certificate": h_certificate})
    orig = e.opaque_attr

    def attr(st, o, name):
        if o.typ == "certificate" and name == "certificate":
            return o.data["certificate"]
        return orig(st, o, name)
    e.opaque_attr = attr
    orig_sign = e.opaque_handlers.get("sign_service")

    def h_sign_service(e2, st, o, name, args, kwargs):
        if name in ("notify_unknown_at", "notify_inline_p2pcd_request", "notify_received_ca_certificate"):
            yield st.ghost_append("notified", TupleV([StrV(name)] + list(args))), NONE
        elif orig_sign is not None:
            yield from orig_sign(e2, st, o, name, args, kwargs)
        else:
            raise Unsupported(f"sign_service.{name}")
    e.opaque_handlers["sign_service"] = h_sign_service
