"""Assumed models of the cryptographic and coding collaborators of the security services (C03 / C05 / C09):
the OER coder, ECDSA back end, certificates and the certificate library are opaque - what is proved is FlexStack's
use of them (DESIGN §5 C03)."""
import z3
from pyvc.values import (NONE, Opt, StrV, Rec, Ref, TupleV, BytesV, Opaque, RaiseV, ExcV, Obj, Unsupported)
from pyvc.shapes import Maker, T
from pyvc import models as _m

SIGNED = T.dict(_open=True, content=T.tuple(T.const("signedData"), T.dict(
    _open=True,
    tbsData=T.dict(_open=True,
                   payload=T.dict(_open=True, data=T.dict(_open=True, content=T.tuple(T.const("unsecuredData"), T.bytes(0, 2000)))),
                   headerInfo=(T.dict(psid=(T.int(0, 2 ** 32), "optional"), generationTime=(T.int(0, 2 ** 63), "optional"),
                                      generationLocation=(T.opaque("object"), "optional"), p2pcdLearningRequest=(T.opaque("object"), "optional"),
                                      missingCrlIdentifier=(T.opaque("object"), "optional"), expiryTime=(T.opaque("object"), "optional"),
                                      encryptionKey=(T.opaque("object"), "optional"), inlineP2pcdRequest=(T.opaque("object"), "optional"),
                                      requestedCertificate=(T.opaque("object"), "optional")), "optional")),
    signer=T.oneof(T.tuple(T.const("digest"), T.bytes_n(8)),
                   T.tuple(T.const("certificate"), T.oneof(T.list(), T.list(T.dict(_open=True, issuer=(T.tuple(T.strs("self", "sha256AndDigest", "sha384AndDigest"), T.opt(T.bytes_n(8))), "optional"))),
                                                            T.list(T.opaque("object"), T.opaque("object")))),
                   T.tuple(T.const("self"), T.none)),
    signature=T.opaque("signature"))))


skey = _m.skey


def det_bytes(e, st, fname, arg, lo, hi, fixed=None):
    """deterministic function `fname` from structural content to bytes"""
    memo = e.__dict__.setdefault("_det_memo", {})
    k = (fname, skey(e, st, arg))
    if k not in memo:
        if fixed is not None:
            memo[k] = (BytesV([("int", z3.BitVec(e.fresh(fname), 8 * fixed), fixed)]), [])
        else:
            memo[k] = e.sym_bytes(e.fresh(fname), lo, hi)
    v, cs = memo[k]
    for c in cs:
        st = st.assume(c)
    return st, v


def x_sha256(e, st, args, kwargs):
    e.used_assumptions.add("hashlib.sha256: a deterministic function from the hashed bytes to 32 bytes (no collision-freeness assumed)")
    o = Opaque("sha256", _m._ident(e, "sha256", "sha"))
    g = dict(st.ghost)
    g["sha:" + str(o.ident)] = (args[0] if args else BytesV([]),)
    yield st._clone(ghost=g), o


def h_sha256(e, st, o, name, args, kwargs):
    cur = st.ghost["sha:" + str(o.ident)][0]
    if name == "update":
        g = dict(st.ghost)
        g["sha:" + str(o.ident)] = (e.bytes_concat(cur, args[0]) if cur.segs else args[0],)
        yield st._clone(ghost=g), NONE
    elif name == "digest":
        s1, v = det_bytes(e, st, "sha256", cur, 32, 32, fixed=32)
        if not e.spec_mode:
            s1 = s1.ghost_append("hashed", TupleV([cur, v]))
        yield s1, v
    else:
        raise Unsupported(f"sha256.{name}")


def h_sec_coder(e, st, o, name, args, kwargs):
    e.used_assumptions.add("security coder (asn1tools OER): decode returns some EtsiTs103097Data-Signed value or raises; encode_* are deterministic functions recorded in ghost logs")
    if name == "decode_etsi_ts_103097_data_signed":
        yield st, RaiseV(e.exc("Exception", "decode error"))
        from pyvc.shapes import expand_oneof
        for shape in expand_oneof(SIGNED):
            s1, v = Maker(e).make(st, shape, e.fresh("decoded"))
            yield s1.ghost_append("decoded", TupleV([args[0], v])), v
    elif name == "encode_to_be_signed_data":
        v, cs = e.sym_bytes(e.fresh("tbs_bytes"), 0, 4000)
        s1 = st
        for c in cs:
            s1 = s1.assume(c)
        # snapshot of the header field names at the moment of encoding (what the signature will cover)
        keys = None
        if isinstance(args[0], Ref) and s1.obj(args[0]).kind == "dict":
            for k, p, x in s1.obj(args[0]).items:
                if isinstance(k, StrV) and k.s == "headerInfo" and isinstance(x, Ref) and s1.obj(x).kind == "dict":
                    if all(isinstance(k2, StrV) and z3.is_true(p2) for k2, p2, _ in s1.obj(x).items):
                        keys = sorted(k2.s for k2, _, _ in s1.obj(x).items)
        if keys is not None:
            s1, kl = s1.alloc(Obj(None, "list", None, [StrV(k) for k in keys]))
            yield s1.ghost_append("tbs_encoded", TupleV([args[0], v, kl])), v
        else:
            yield s1.ghost_append("tbs_encoded", TupleV([args[0], v])), v
    elif name == "encode_etsi_ts_103097_data_signed":
        v, cs = e.sym_bytes(e.fresh("secured_bytes"), 0, 4000)
        s1 = st
        for c in cs:
            s1 = s1.assume(c)
        yield s1.ghost_append("secured", TupleV([args[0], v])), v
    elif name in ("encode_etsi_ts_103097_certificate", "encode_ToBeSignedCertificate"):
        s1, v = det_bytes(e, st, name, args[0], 0, 4000)
        if name == "encode_ToBeSignedCertificate" and not e.spec_mode:
            s1 = s1.ghost_append("tbs_cert_encoded", TupleV([args[0], v]))
        if name == "encode_etsi_ts_103097_certificate" and not e.spec_mode:
            s1 = s1.ghost_append("cert_encoded", TupleV([args[0], v]))
        yield s1, v
        yield st, RaiseV(e.exc("Exception", "encode error"))
    else:
        raise Unsupported(f"security coder .{name}")


def h_backend(e, st, o, name, args, kwargs):
    e.used_assumptions.add("ECDSA back end: verify_with_pk returns an arbitrary boolean (sig_ok), recorded with its arguments")
    if name == "verify_with_pk":
        b = z3.Bool(e.fresh("sig_ok"))
        a3 = [kwargs.get(k, args[i] if len(args) > i else NONE) for i, k in enumerate(("data", "signature", "pk"))]
        yield st.ghost_append("sig_checks", TupleV(a3 + [b])), b
    else:
        raise Unsupported(f"backend.{name}")


def _ticket(e, st, base):
    from pyvc.shapes import Maker
    cert = T.opt(T.dict(_open=True, toBeSigned=T.dict(_open=True, verifyKeyIndicator=T.tuple(T.strs("verificationKey", "reconstructionValue"), T.opaque("public_key")))))
    s1, c = Maker(e).make(st, cert, e.fresh(base + ".certificate"))
    return s1, Opaque("certificate", _m._ident(e, "certificate", base), {"certificate": c})


def h_cert_library(e, st, o, name, args, kwargs):
    e.used_assumptions.add("CertificateLibrary seen from VerifyService: lookups return an arbitrary ticket or None (the store invariant is C09's)")
    if name == "get_ca_certificate_by_hashedid3":
        s1, t = _ticket(e, st, "ca_cert")
        yield s1, Opt(z3.Bool(e.fresh("ca_absent")), t)
    elif name in ("verify_sequence_of_certificates", "get_authorization_ticket_by_hashedid8"):
        s1, t = _ticket(e, st, "ticket")
        absent = z3.Bool(e.fresh("ticket_absent"))
        yield s1.ghost_append("ticket_lookups", TupleV([StrV(name), args[0], Opt(absent, t)])), Opt(absent, t)
    else:
        raise Unsupported(f"certificate library .{name}")


def h_certificate(e, st, o, name, args, kwargs):
    if name == "verify":
        b = z3.Bool(e.fresh("chain_ok"))
        yield st.ghost_append("cert_verified", TupleV([o, b])), b
    elif name == "is_authorization_ticket":
        b = z3.Bool(e.fresh("is_at"))
        yield st.ghost_append("at_checked", TupleV([o, b])), b
    elif name == "as_hashedid8":
        yield st, BytesV([("int", z3.BitVec(f"hashedid8.{o.ident}", 64), 8)])
    elif name == "sign_message":
        sig = Opaque("signature", _m._ident(e, "signature", "sig"))
        yield st.ghost_append("signed_with", TupleV([o, args[1], sig])), sig
    elif name == "get_list_of_its_aid":
        raise Unsupported("certificate.get_list_of_its_aid (model)")
    else:
        raise Unsupported(f"certificate .{name}")


CERT_DICT = T.dict(_open=True, issuer=T.tuple(T.strs("self", "sha256AndDigest", "sha384AndDigest"), T.bytes_n(8)))
_CS = z3.DeclareSort("Obj_cert")
_BV64 = z3.BitVecSort(64)
F_VERIFIES = z3.Function("cert.verifies", _CS, z3.BoolSort())
F_DIGEST = z3.Function("cert.hashedid8", _CS, _BV64)
F_ISS_KIND = z3.Function("cert.issuer_kind", _CS, z3.IntSort())
F_ISS_DIGEST = z3.Function("cert.issuer_digest", _CS, _BV64)
F_HAS_ISSUER = z3.Function("cert.has_issuer_attr", _CS, z3.BoolSort())
F_ISSUER = z3.Function("cert.issuer_attr", _CS, _CS)


def _bits64(e, st, b):
    """the 64-bit value of an 8-byte bytes value"""
    if isinstance(b, BytesV) and len(b.segs) == 1 and b.segs[0][0] == "int" and b.segs[0][2] == 8:
        t = b.segs[0][1]
        return t if t.size() == 64 else z3.Extract(63, 0, t)
    raise Unsupported("certificate digest that is not a plain 8-byte value")


def fresh_cert(e, st, base="stored_cert"):
    """an opaque certificate object. Everything the library sees of it is a FUNCTION OF ITS IDENTITY (uninterpreted):
    verify(), as_hashedid8(), the issuer field of its dictionary and its issuer attribute - so two references to the
    same object agree on all of them."""
    return st, Opaque("cert", z3.Const(e.fresh(base), _CS))


def _store_initial(e, st, o, key):
    """initial content of a certificate store at a key the path did not touch, as uninterpreted functions of the key's
    value (per store and havoc epoch): present or not, and if present some certificate whose digest is that key - the
    representation invariant store_wf, proved to be preserved by every mutator, used as induction hypothesis"""
    if key is NONE:
        return z3.BoolVal(False), NONE
    if not isinstance(key, BytesV) or e.bytes_const_len(key) != 8:
        raise Unsupported(f"certificate store looked up with a key that is not an 8-byte digest: {key}")
    k = e.bytes_as_bv(key)
    tag = f"{o.ident}@{_m._map_epoch(st, o)}"
    has = z3.Function(f"store.has0[{tag}]", _BV64, z3.BoolSort())
    val = z3.Function(f"store.cert0[{tag}]", _BV64, _CS)
    fact = F_DIGEST(val(k)) == k
    if not any(fact.eq(x) for x in e.late_axioms):
        e.late_axioms.append(fact)
    return has(k), Opaque("cert", val(k))


def h_cert_dict(e, st, o, name, args, kwargs):
    from pyvc.values import SymStr
    if name == "__getitem__" and isinstance(args[0], StrV) and args[0].s == "issuer":
        yield st, TupleV([SymStr(F_ISS_KIND(o.ident)), BytesV([("int", F_ISS_DIGEST(o.ident), 8)])])
    else:
        raise Unsupported(f"certificate dictionary of an opaque certificate .{name}({args[0].s if args and isinstance(args[0], StrV) else ''})")


def h_cert(e, st, o, name, args, kwargs):
    e.used_assumptions.add("Certificate objects seen from the CertificateLibrary: verify(), as_hashedid8(), the issuer field and the issuer "
                           "attribute are uninterpreted functions of the object's identity (the contract of the real "
                           "Certificate.verify is proved separately)")
    if name == "verify":
        yield st, F_VERIFIES(o.ident)
    elif name == "as_hashedid8":
        yield st, BytesV([("int", F_DIGEST(o.ident), 8)])
    elif name == "get_issuer_hashedid8":
        kind = F_ISS_KIND(o.ident)
        c_self = kind == e.str_id("self")
        c_dig = kind == e.str_id("sha256AndDigest")
        if e.feasible(st.pc, c_dig):
            yield st.assume(c_dig), BytesV([("int", F_ISS_DIGEST(o.ident), 8)])
        if e.feasible(st.pc, c_self):
            yield st.assume(c_self), NONE
        other = z3.And(z3.Not(c_self), z3.Not(c_dig))
        if e.feasible(st.pc, other):
            yield st.assume(other), RaiseV(e.exc("ValueError", "Unknown issuer type"))
    else:
        raise Unsupported(f"cert .{name}")


def h_cert_class(e, st, o, name, args, kwargs):
    """Certificate.from_dict(certificate=d, issuer=i): a new certificate object over (a copy of) d with issuer attribute i
    (None if i is falsy); its digest is a fixed function of the content of d"""
    from pyvc.values import SymStr
    if name == "from_dict":
        d = kwargs.get("certificate", args[0] if args else None)
        iss = kwargs.get("issuer", args[1] if len(args) > 1 else NONE)
        s1, c = fresh_cert(e, st, "cert_from_dict")
        tup = [x for k, p, x in st.obj(d).items if isinstance(k, StrV) and k.s == "issuer"][0]
        kind = tup.items[0]
        kterm = kind.term if isinstance(kind, SymStr) else e.str_id(kind.s)
        memo = e.__dict__.setdefault("_digest_of_dict", {})
        dg = memo.setdefault(skey(e, st, d), z3.BitVec(e.fresh("digest_of_dict"), 64))
        facts = [F_ISS_KIND(c.ident) == kterm, F_DIGEST(c.ident) == dg]
        if isinstance(tup.items[1], BytesV):
            facts.append(e.truth(st, e.eq(st, BytesV([("int", F_ISS_DIGEST(c.ident), 8)]), tup.items[1])))
        if isinstance(iss, Opt):
            facts.append(F_HAS_ISSUER(c.ident) == z3.Not(iss.isnone))
            facts.append(z3.Implies(z3.Not(iss.isnone), F_ISSUER(c.ident) == iss.val.ident))
        elif isinstance(iss, Opaque):
            facts += [F_HAS_ISSUER(c.ident), F_ISSUER(c.ident) == iss.ident]
        else:
            facts.append(z3.Not(F_HAS_ISSUER(c.ident)))
        for f in facts:
            if z3.is_false(f):
                raise Unsupported(f"from_dict model: contradictory fact about a fresh object ({[str(x)[:80] for x in facts]}; issuer field {tup.items})")
        e.late_axioms.extend(facts)
        yield s1, c
    else:
        raise Unsupported(f"Certificate.{name}")


def setup_ecdsa(e):
    """python-ecdsa seen from the back end: curves and hash functions are names, sigencode_string keeps (r, s, order),
    Point / from_public_point keep (curve, x, y); VerifyingKey.verify returns True, raises BadSignatureError or (never in
    the library) returns False - an arbitrary verdict recorded with its arguments"""
    setup(e)
    e.used_assumptions.add("python-ecdsa: VerifyingKey.verify(sig, data, hashfunc) is an arbitrary verdict (True or BadSignatureError) "
                           "recorded with r, s, the point and the curve it was called with; no elliptic-curve arithmetic is modelled")

    def ext(name):
        return Opaque("ecdsa_name", None, {"name": name})
    for n in ("ecdsa.NIST256p", "ecdsa.BRAINPOOLP256r1", "hashlib.sha256", "ecdsa.NIST384p"):
        e.external_values[n] = ext(n.split(".")[-1])
    e.external_values["hashlib.sha256"] = ext("sha256")

    def h_name(e2, st, o, name, args, kwargs):
        raise Unsupported(f"ecdsa {o.data['name']}.{name}()")
    e.opaque_handlers["ecdsa_name"] = h_name
    orig = e.opaque_attr

    def attr(st, o, name):
        if o.typ == "ecdsa_name" and name in ("order", "curve"):
            return Opaque("ecdsa_name", None, {"name": o.data["name"] + "." + name})
        return orig(st, o, name)
    e.opaque_attr = attr

    def x_sigencode(e2, st, args, kwargs):
        yield st, Opaque("ec_sig", None, {"r": args[0], "s": args[1], "order": args[2]})

    def x_point(e2, st, args, kwargs):
        yield st, Opaque("ec_point", None, {"curve": args[0], "x": args[1], "y": args[2], "order": args[3] if len(args) > 3 else None})

    def x_from_public_point(e2, st, args, kwargs):
        yield st, Opaque("ec_vk", None, {"point": args[0], "curve": kwargs.get("curve")})

    def h_vk(e2, st, o, name, args, kwargs):
        if name != "verify":
            raise Unsupported(f"VerifyingKey.{name}")
        sig = kwargs.get("signature", args[0] if args else None)
        data = kwargs.get("data", args[1] if len(args) > 1 else None)
        hf = kwargs.get("hashfunc")
        ok = z3.Bool(e2.fresh("ec_ok"))
        pt = o.data["point"]
        curve = o.data["curve"]
        row = TupleV([data, sig.data["r"], sig.data["s"], pt.data["x"], pt.data["y"], ok,
                      StrV(curve.data["name"] if isinstance(curve, Opaque) and curve.data else "?"),
                      StrV(hf.data["name"] if isinstance(hf, Opaque) and hf.data else "?")])
        s1 = st.ghost_append("ec_verify", row)
        if e2.feasible(s1.pc, ok):
            yield s1.assume(ok), z3.BoolVal(True)
        if e2.feasible(s1.pc, z3.Not(ok)):
            yield s1.assume(z3.Not(ok)), RaiseV(e2.exc("ecdsa.keys.BadSignatureError", "bad signature"))
    e.opaque_handlers["ec_vk"] = h_vk
    e.external_handlers.update({"ecdsa.util.sigencode_string": x_sigencode, "ecdsa.ellipticcurve.Point": x_point,
                                "ecdsa.VerifyingKey.from_public_point": x_from_public_point})


def setup_library(e):
    setup(e)
    e.const_overrides[("flexstack.security.certificate_library", "Certificate")] = Opaque("cert_class")
    keyed = _m.make_keyed_map_handler(None, initial=_store_initial)

    def h_certmap(e2, st, o, name, args, kwargs):
        if name == "__contains__" and args and args[0] is NONE:
            # the stores are keyed by 8-byte digests (store_wf): None is never a key
            yield st, z3.BoolVal(False)
            return
        yield from keyed(e2, st, o, name, args, kwargs)
    h_certmap.initial = _store_initial
    e.opaque_handlers.update({"cert": h_cert, "cert_class": h_cert_class, "cert_dict": h_cert_dict, "certmap": h_certmap})
    orig = e.opaque_attr

    def attr(st, o, name):
        if o.typ == "cert" and name == "certificate":
            return Opaque("cert_dict", o.ident)
        if o.typ == "cert" and name == "issuer":
            return Opt(z3.Not(F_HAS_ISSUER(o.ident)), Opaque("cert", F_ISSUER(o.ident)))
        return orig(st, o, name)
    e.opaque_attr = attr


def setup(e):
    e.const_overrides[("flexstack.security.certificate", "SECURITY_CODER")] = Opaque("sec_coder")
    e.external_handlers["hashlib.sha256"] = x_sha256
    e.opaque_handlers["sha256"] = h_sha256
    e.opaque_handlers.update({"sec_coder": h_sec_coder, "ecdsa_backend": h_backend, "cert_library": h_cert_library,
                              "certificate": h_certificate})
    orig = e.opaque_attr

    def attr(st, o, name):
        if o.typ == "certificate" and name == "certificate":
            return o.data["certificate"]
        if o.typ == "cert_library" and name == "own_certificates":
            return Opaque("own_store", o.ident)
        return orig(st, o, name)

    def h_own_store(e2, st, o, name, args, kwargs):
        if name == "values":
            yield st, Opaque("sym_seq")
        elif name == "__contains__":
            yield st, z3.Bool(e2.fresh("is_own_certificate"))      # arbitrary: any digest may or may not be an own one
        elif name in ("__getitem__", "get"):
            s1, t = _ticket(e2, st, "own_ticket")
            yield s1, t
        elif name == "keys":
            yield st, o
        else:
            raise Unsupported(f"own certificate store .{name}")
    e.opaque_handlers["own_store"] = h_own_store
    e.opaque_attr = attr
    orig_sign = e.opaque_handlers.get("sign_service")

    def h_sign_service(e2, st, o, name, args, kwargs):
        if name in ("notify_unknown_at", "notify_inline_p2pcd_request", "notify_received_ca_certificate"):
            yield st.ghost_append("notified", TupleV([StrV(name)] + list(args))), NONE
        elif orig_sign is not None:
            yield from orig_sign(e2, st, o, name, args, kwargs)
        else:
            raise Unsupported(f"sign_service.{name}")
    e.opaque_handlers["sign_service"] = h_sign_service
