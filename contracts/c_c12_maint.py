"""C12: time-based expiry by LDMMaintenance.check_and_delete_time_validity (BOUNDED: stores of 0..2 records seen
through an assumed model of the data store)."""
from pyvc.contracts import contract, T
from pyvc.values import TupleV, Opaque, NONE, RaiseV
from pyvc.shapes import Maker

LDM = "flexstack.facilities.local_dynamic_map"
MT = f"{LDM}.ldm_maintenance:LDMMaintenance"
RECORD = T.dict(_open=True, timeValidity=T.int(0, 2 ** 32), timestamp=T.int(0, 2 ** 42))


def setup(e):
    def h_store(e2, st, o, name, args, kwargs):
        e2.used_assumptions.add("data store seen from maintenance: all() returns the 0..2 stored records (bounded), remove(record) "
                                "removes it (ghost log); both may raise KeyError / JSONDecodeError (handled by the wrappers)")
        if name == "all":
            for n in range(3):
                s1, items = st, []
                for k in range(n):
                    s1, r = Maker(e2).make(s1, RECORD, e2.fresh(f"record{k}"))
                    items.append(r)
                res = TupleV(items)
                yield s1.ghost_append("stored", res), res
        elif name == "remove":
            yield st.ghost_append("removed", args[0]), NONE
        else:
            raise NotImplementedError(name)
    e.opaque_handlers["record_store"] = h_store
    e.external_handlers["print"] = lambda e2, st, a, k: iter([(st, NONE)])


contract(f"{MT}.check_and_delete_time_validity", props=["C12"], mode="int", spec_module="spec_ldm", engine_setup=setup, frame_check=False,
         float_as_real=True, requires=["now() >= 1072915200"],
         bound="stores of 0..2 records", shapes={"self": T.obj(MT, logging=T.opaque("logger"), data_containers=T.opaque("record_store"), area_of_maintenance=T.opaque("object"),
                               new_data_recieved_flag=T.int(0, 1))},
         returns=T.opaque("object"),
         ensures={"exactly_the_expired_records_are_removed": "len(ghost('stored')) == 1 and [r for r in ghost('stored')[0] if expired(r)] == list(ghost('removed'))",
                  "and_reported": "list(result) == list(ghost('removed'))"},
         cover=["len(ghost('removed')) == 2", "len(ghost('removed')) == 0"])
