"""C12: time-based expiry by LDMMaintenance.check_and_delete_time_validity (BOUNDED: stores of 0..2 records seen
through an assumed model of the data store)."""
from pyvc.contracts import contract, T
from pyvc.values import TupleV, Opaque, NONE, RaiseV
from pyvc.shapes import Maker

LDM = "flexstack.facilities.local_dynamic_map"
MT = f"{LDM}.ldm_maintenance:LDMMaintenance"
RECORD = T.dict(_open=True, timeValidity=T.int(0, 2 ** 32), timestamp=T.int(0, 2 ** 42))


def setup(e):
    def h_store(e2, st, o, name, args, kwargs):
        e2.used_assumptions.add("data store seen from maintenance: all() returns the 0..2 stored records (bounded), remove(record) "
                                "removes it (ghost log); both may raise KeyError / JSONDecodeError (handled by the wrappers)")
        if name == "all":
            for n in range(3):
                s1, items = st, []
                for k in range(n):
                    s1, r = Maker(e2).make(s1, RECORD, e2.fresh(f"record{k}"))
                    items.append(r)
                res = TupleV(items)
                yield s1.ghost_append("stored", res), res
        elif name == "remove":
            yield st.ghost_append("removed", args[0]), NONE
        else:
            raise NotImplementedError(name)
    e.opaque_handlers["record_store"] = h_store
    e.external_handlers["print"] = lambda e2, st, a, k: iter([(st, NONE)])


contract(f"{MT}.check_and_delete_time_validity", props=["C12"], mode="int", spec_module="spec_ldm", engine_setup=setup, frame_check=False,
         float_as_real=True, requires=["now() >= 1072915200"],
         bound="stores of 0..2 records", shapes={"self": T.obj(MT, logging=T.opaque("logger"), data_containers=T.opaque("record_store"), area_of_maintenance=T.opaque("object"),
                               new_data_recieved_flag=T.int(0, 1))},
         returns=T.opaque("object"),
         ensures={"exactly_the_expired_records_are_removed": "len(ghost('stored')) == 1 and [r for r in ghost('stored')[0] if expired(r)] == list(ghost('removed'))",
                  "and_reported": "list(result) == list(ghost('removed'))"},
         cover=["len(ghost('removed')) == 2", "len(ghost('removed')) == 0"])


# ------------------------------------------------------------------------------------------- registries, removal
SVQ = f"{LDM}.ldm_service:LDMService"
contract(f"{SVQ}.__init__", props=["C12", "C16"], mode="int", spec_module="spec_ldm", frame_check=False,
         shapes={"self": T.obj(SVQ), "ldm_maintenance": T.opaque("object")}, modifies=["self.*"],
         ensures={"provider_and_consumer_registries_are_separate_and_empty": "self.data_provider_its_aid is not self.data_consumer_its_aid and len(self.data_provider_its_aid) == 0 and len(self.data_consumer_its_aid) == 0",
                  "no_subscriptions": "len(self.subscriptions) == 0 and self.subscriptions is not self.last_checked_subscriptions_time",
                  "maintenance_kept": "self.ldm_maintenance is ldm_maintenance"})

DBQ = f"{LDM}.dictionary_database:DictionaryDataBase"
_REC = T.dict(applicationId=T.int(0, 3), timeStamp=T.int(0, 3))


def _store(keys):
    return T.dictk({k: _REC for k in keys})


contract(f"{DBQ}.remove", props=["C12", "C16", "C13"], mode="int", spec_module="spec_ldm", frame_check=False,
         bound="stores of 0..3 records under representative identifier sets with holes ({}, {0}, {2}, {0,1}, {1,3}, {0,2,5})",
         shapes={"self": T.obj(DBQ, database=T.oneof(_store([]), _store([0]), _store([2]), _store([0, 1]), _store([1, 3]), _store([0, 2, 5])),
                               _lock=T.opaque("rlock"), _next_id=T.int(0)), "data_object": _REC},
         modifies=["self.database"],
         ensures={"removes_exactly_the_first_stored_record_equal_to_the_given_one": "removed_keys(self) == ([first_equal_key(self, data_object)] if first_equal_key(self, data_object) is not None else [])",
                  "every_other_record_stays_under_its_identifier": "all(self.database[k] is old_value(self, k) for k in self.database)",
                  "reports_whether_something_was_removed": "result == (first_equal_key(self, data_object) is not None)"},
         cover=["result", "not result"])


# ------------------------------------------------------------------------------------------- area-based maintenance
CL = f"{LDM}.ldm_classes"
AREA = T.rec(f"{CL}:Location",
             reference_position=T.rec(f"{CL}:ReferencePosition", latitude=T.int(-900000000, 900000001), longitude=T.int(-1800000000, 1800000001),
                                      position_confidence_ellipse=T.opaque("object"), altitude=T.rec(f"{CL}:Altitude", altitude_value=T.int(-100000, 800001), altitude_confidence=T.int(0, 15))),
             reference_area=T.rec(f"{CL}:ReferenceArea", geometric_area=T.opaque("object"),
                                  relevance_area=T.rec(f"{CL}:RelevanceArea", relevance_distance=T.rec(f"{CL}:RelevanceDistance", relevance_distance=T.int(0, 7)),
                                                       relevance_traffic_direction=T.opaque("object"))))
LOCREC = T.dict(_open=True, location=T.dict(_open=True, referencePosition=T.dict(_open=True, latitude=T.int(-900000000, 900000001), longitude=T.int(-1800000000, 1800000001),
                                                                                  altitude=T.dict(_open=True, altitudeValue=T.int(-100000, 800001)))))


def setup_area(e):
    def h_store(e2, st, o, name, args, kwargs):
        e2.used_assumptions.add("data store seen from maintenance: all() returns the 0..2 stored records (bounded), remove(record) removes it (ghost log)")
        if name == "all":
            for n in range(3):
                s1, items = st, []
                for k in range(n):
                    s1, r = Maker(e2).make(s1, LOCREC, e2.fresh(f"record{k}"))
                    items.append(r)
                res = TupleV(items)
                yield s1.ghost_append("stored", res), res
        elif name == "remove":
            yield st.ghost_append("removed", args[0]), NONE
        else:
            raise NotImplementedError(name)
    e.opaque_handlers["loc_store"] = h_store
    e.external_handlers["print"] = lambda e2, st, a, k: iter([(st, NONE)])


contract(f"{CL}:Utils.euclidian_distance", props=[], assumed=True, mode="int", spec_module="spec_ldm",
         shapes={"point1": T.tuple(T.float(), T.float()), "point2": T.tuple(T.float(), T.float())},
         ensures={"uf": "result == uf('euclid', 'real', point1[0], point1[1], point2[0], point2[1]) and result >= 0"}) if f"{CL}:Utils.euclidian_distance" not in __import__("pyvc.contracts").contracts.REGISTRY else None
contract(f"{MT}.check_and_delete_area_of_maintenance", props=["C12"], mode="int", spec_module="spec_ldm", engine_setup=setup_area, frame_check=False,
         float_as_real=True, bound="stores of 0..2 records",
         shapes={"self": T.obj(MT, logging=T.opaque("logger"), data_containers=T.opaque("loc_store"), area_of_maintenance=AREA, new_data_recieved_flag=T.int(0, 1))},
         returns=T.opaque("object"), may_raise=["ValueError"],
         ensures={"objects_inside_the_area_of_maintenance_are_kept": "all(not inside_area_of_maintenance(self, r) for r in ghost('removed'))"},
         cover=["len(ghost('removed')) >= 1"])
