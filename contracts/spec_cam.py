"""Spec for C10 (EN 302 637-2 clause 6.1.3 CAM generation rules; TS 103 300-3 VAM rules as quoted by the property)."""
import math

T_GEN_CAM_MIN = 100
T_GEN_CAM_MAX = 1000
T_GEN_CAM_LF = 500
OPAQUE_ALWAYS = ()


def heading_diff(a, b):
    """circular difference of two headings in degrees"""
    d = abs(a - b)
    return 360.0 - d if d > 180.0 else d


def now_ms():
    return int(now() * 1000)


def dynamics_changed(m, tpv):
    """heading, position or speed differ from the last CAM by more than 4 degrees, 4 m or 0.5 m/s"""
    if m._last_cam_heading is None:
        return True
    if 'track' in tpv and heading_diff(tpv['track'], m._last_cam_heading) > 4.0:
        return True
    if 'lat' in tpv and 'lon' in tpv and m._last_cam_lat is not None and m._last_cam_lon is not None and dist_to_last(m, tpv) > 4.0:
        return True
    if 'speed' in tpv and m._last_cam_speed is not None and abs(tpv['speed'] - m._last_cam_speed) > 0.5:
        return True
    return False


def gdt_of(ts_seconds):
    """generationDeltaTime = ITS timestamp (ms) modulo 65536"""
    return int((ts_seconds * 1000 - 1072915200000 + 5000) % 65536)


def dist_to_last(m, tpv):
    return uf('haversine_m', 'real', m._last_cam_lat, m._last_cam_lon, tpv['lat'], tpv['lon'])


def dynamics_changed_old(m):
    """dynamics rule evaluated on the state and report at the start of the check"""
    return old(dynamics_changed(m, m._current_tpv))


def the_cam():
    """the CAM dictionary handed to the coder (last encode call of this operation)"""
    return ghost('encoded')[len(ghost('encoded')) - 1]


def uf_timestamp(s):
    """POSIX time stamp denoted by a report's ISO time string (dateutil is opaque)"""
    return uf('timestamp_of', 'real', s)


def suppressed():
    """the clustering manager was asked and answered that individual transmission is suppressed"""
    return len(ghost('suppression_asked')) == 1 and not ghost('suppression_asked')[0]


def report_gap_ms(m, tpv):
    """milliseconds between the report and the last VAM on the reports' own time stamps, modulo 65536"""
    return (gdt_of(uf_timestamp(tpv['time'])) - old(m.last_vam_generation_delta_time.msec)) % 65536
