"""C11 harnesses: build a fresh message with the real classes and apply the real mapping functions to a report."""
from flexstack.facilities.ca_basic_service.cam_transmission_management import CooperativeAwarenessMessage, \
    GenerationDeltaTime
from flexstack.facilities.vru_awareness_service.vam_transmission_management import VAMMessage


def cam_from_report(tpv: dict) -> dict:
    m = CooperativeAwarenessMessage()
    m.fullfill_basic_container_with_tpv_data(tpv)
    m.fullfill_high_frequency_container_with_tpv_data(tpv)
    return m.cam


def vam_from_report(tpv: dict) -> dict:
    m = VAMMessage()
    m.fullfill_basic_container_with_tpv_data(tpv)
    m.fullfill_high_frequency_container_with_tpv_data(tpv)
    return m.vam


def reconstruct_generation_time(gdt_msec: int, utc_now_ms: int) -> float:
    return GenerationDeltaTime(msec=gdt_msec).as_timestamp_in_certain_point(utc_now_ms)
