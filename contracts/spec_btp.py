"""Spec helpers for the BTP router contracts (C01)."""
from spec_geonet import be, same_lpv, same_gn_addr


def gn_req():
    """the single GN-DATA.request handed down"""
    return ghost("gn_requests")[0]


def handed():
    """the BTP-DATA.indication handed to the port handler"""
    return ghost("callbacks")[0][1]
