"""Spec helpers for C03 / C05 / C09 over the ghost logs of the opaque coder, back end and certificate objects."""


def n_sig_checks():
    return len(ghost('sig_checks'))


def sig_check():
    return ghost('sig_checks')[0]


def decoded_msg():
    """(received bytes, decoded structure) of the single decode call"""
    return ghost('decoded')[0]


def signed_data():
    return decoded_msg()[1]['content'][1]


def tbs_bytes_of_this_message():
    return ghost('tbs_encoded')[0]


def looked_up_ticket():
    return ghost('ticket_lookups')[0][2]


def ticket_permits(ticket, psid):
    """the ITS-AID is among the ticket's application permissions (an uninterpreted fact about the opaque ticket:
    provable only if the code consults the ticket's permissions)"""
    return uf('ticket_permits', 'bool', psid)


def ticket_valid_at(ticket, generation_time):
    return uf('ticket_valid_at', 'bool', generation_time)


# ---- C09: permissions of a certificate dictionary, written from IEEE 1609.2 / TS 103 097 rather than from the code ----

def app_psids(c):
    """PSIDs of the appPermissions of certificate dictionary c"""
    tbs = c['toBeSigned']
    if 'appPermissions' not in tbs:
        return []
    return [e['psid'] for e in tbs['appPermissions']]


def issue_groups(c):
    tbs = c['toBeSigned']
    if 'certIssuePermissions' not in tbs:
        return []
    return tbs['certIssuePermissions']


def issue_psids(c):
    """PSIDs the certificate may issue for (or itself asks to be able to issue for) through explicit groups"""
    out = []
    for g in issue_groups(c):
        if g['subjectPermissions'][0] == 'explicit':
            out = out + [e['psid'] for e in g['subjectPermissions'][1]]
    return out


def issues_all(c):
    return any(g['subjectPermissions'][0] == 'all' for g in issue_groups(c))


def needed_psids(c):
    return app_psids(c) + issue_psids(c)


def explicitly_contained(c, i):
    """every PSID certificate c is authorised for, or asks to issue for, is one its issuer i may issue for"""
    return all(p in issue_psids(i) for p in needed_psids(c))


def contained(c, i):
    """permissions of certificate dictionary c are contained in the issuing permissions of issuer dictionary i"""
    return issues_all(i) or (not issues_all(c) and explicitly_contained(c, i))


def chain_length_allows(c):
    """the remaining chain length of every issuing-permission group of issuer dictionary c allows one more certificate"""
    return all(g['minChainLength'] >= 1 for g in issue_groups(c))


def tbs_cert_encoding():
    """(toBeSigned dictionary, its encoding) of the single ToBeSignedCertificate encoding made by the call"""
    return ghost('tbs_cert_encoded')[0]


# ---- C09: the certificate library seen as three maps digest -> certificate object ----

def digest_of(cert):
    return cert.as_hashedid8()


def names_trusted_issuer(lib, cert):
    """the certificate names (by digest) an issuer that is in the trusted roots or the trusted authorization authorities"""
    return cert.certificate['issuer'][0] == 'sha256AndDigest' and (
        map_has(lib.known_root_certificates, cert.certificate['issuer'][1])
        or map_has(lib.known_authorization_authorities, cert.certificate['issuer'][1]))


def changed_only_by_admitting(m, cert):
    """two-state, at the tracked ARBITRARY key of map m: the entry is as before, or the key is cert's digest and the entry
    now holds cert"""
    return unchanged(m) or (old(map_key0(m)) == digest_of(cert) and map_has(m, old(map_key0(m))) and map_get(m, old(map_key0(m))) is cert)


def unchanged(m):
    return map_has(m, old(map_key0(m))) == old(map_has(m, map_key0(m))) and implies(old(map_has(m, map_key0(m))), map_get(m, old(map_key0(m))) is old(map_get(m, map_key0(m))))


def stored_issuer(lib, c):
    """c's issuer attribute is the certificate stored (root or authorization authority) under the digest c names"""
    d = c.certificate['issuer'][1]
    return c.issuer is not None and c.certificate['issuer'][0] == 'sha256AndDigest' and (
        (map_has(lib.known_root_certificates, d) and c.issuer is map_get(lib.known_root_certificates, d))
        or (map_has(lib.known_authorization_authorities, d) and c.issuer is map_get(lib.known_authorization_authorities, d)))


def stored_root_issuer(lib, c):
    d = c.certificate['issuer'][1]
    return c.issuer is not None and map_has(lib.known_root_certificates, d) and c.issuer is map_get(lib.known_root_certificates, d)


def chain_verified(lib, c, backend):
    """c verifies, and its issuer attribute is a stored trusted certificate or an authorization authority that itself
    verifies under a stored root"""
    return c.verify(backend) and (stored_issuer(lib, c) or (c.issuer is not None and c.issuer.verify(backend) and stored_root_issuer(lib, c.issuer)))


def keyed_by_own_digest(m):
    return implies(map_has(m, map_key0(m)), map_key0(m) == digest_of(map_get(m, map_key0(m))))


def store_wf(lib):
    """representation invariant of the library: every stored certificate is stored under its own digest"""
    return keyed_by_own_digest(lib.known_authorization_tickets) and keyed_by_own_digest(lib.known_authorization_authorities) and keyed_by_own_digest(lib.known_root_certificates)


# ---- C05: the message handed to the OER encoder by the sign service ----

def signed_message():
    """the EtsiTs103097Data-Signed dictionary given to the single encode call"""
    return ghost('secured')[0][0]


def header_keys(header_info):
    return sorted(header_info.keys())


def old_groups(c):
    return old(list(issue_groups(c.certificate)))
