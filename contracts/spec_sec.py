"""Spec helpers for C03 / C05 / C09 over the ghost logs of the opaque coder, back end and certificate objects."""


def n_sig_checks():
    return len(ghost('sig_checks'))


def sig_check():
    return ghost('sig_checks')[0]


def decoded_msg():
    """(received bytes, decoded structure) of the single decode call"""
    return ghost('decoded')[0]


def signed_data():
    return decoded_msg()[1]['content'][1]


def tbs_bytes_of_this_message():
    return ghost('tbs_encoded')[0]


def looked_up_ticket():
    return ghost('ticket_lookups')[0][2]


def ticket_permits(ticket, psid):
    """the ITS-AID is among the ticket's application permissions (an uninterpreted fact about the opaque ticket:
    provable only if the code consults the ticket's permissions)"""
    return uf('ticket_permits', 'bool', psid)


def ticket_valid_at(ticket, generation_time):
    return uf('ticket_valid_at', 'bool', generation_time)
