"""Lemmas about spec functions only (no repository code): the reference quantiser really is what C20 states."""
from spec_geonet import best_ms


def best_ms_value(v: int) -> int:
    return best_ms(v)
