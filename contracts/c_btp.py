"""C01: BTP router - header prepend / strip and port demultiplexing (codec mode)."""
import z3
from pyvc.contracts import contract, T
from pyvc.values import TupleV, NONE, Opaque
from .shapes_geonet import *
from pyvc import models as _m

BR = "flexstack.btp.router"
BSAP = "flexstack.btp.service_access_point"
BTPREQ = T.rec(f"{BSAP}:BTPDataRequest", gn_packet_transport_type=PTT, gn_destination_address=GNADDR, gn_area=AREA,
               traffic_class=TC, data=T.bytes(0, 1500), security_permissions=T.bytes(0, 64),
               btp_type=T.enum(f"{SAP}:CommonNH"), gn_max_packet_lifetime=T.opt(T.float()),
               gn_repetition_interval=T.opt(T.int()), gn_max_repetition_time=T.opt(T.int()),
               communication_profile=T.enum(f"{SAP}:CommunicationProfile"),
               security_profile=T.enum("flexstack.security.security_profiles:SecurityProfile"))
BTPROUTER = T.obj(f"{BR}:Router", logging=T.opaque("logger"), pre_indication_callbacks=T.opaque("port_map"),
                  indication_callbacks=T.opt(T.opaque("port_map")), gn_router=T.opaque("gn_router"))


def h_gn_router(e, st, o, name, args, kwargs):
    e.used_assumptions.add("GeoNetworking router seen from BTP: gn_data_request records the request in a ghost log (the GN router is verified under C02/C06)")
    if name != "gn_data_request":
        raise _m.Unsupported(f"gn_router.{name}")
    yield st.ghost_append("gn_requests", args[0]), NONE


def _fresh_callback(e, st):
    return st, Opaque("callback", _m._ident(e, "callback", "handler"))


def setup(e):
    e.opaque_handlers["gn_router"] = h_gn_router
    e.opaque_handlers["port_map"] = _m.make_keyed_map_handler(_fresh_callback)


S = dict(mode="bv", spec_module="spec_btp", engine_setup=setup)
contract(f"{BR}:Router.btp_data_request", props=["C01"], shapes={"self": BTPROUTER, "request": BTPREQ},
         requires=["0 <= request.destination_port < 65536", "0 <= request.source_port < 65536",
                   "0 <= request.destination_port_info < 65536"],
         raises={"ValueError": "request.btp_type.value != 1 and request.btp_type.value != 2"},
         ensures={"exactly_one_gn_request": "len(ghost('gn_requests')) == 1",
                  "btp_header_prepended": "gn_req().data[0:2] == request.destination_port.to_bytes(2, 'big') and gn_req().data[2:4] == (request.destination_port_info if request.btp_type.value == 2 else request.source_port).to_bytes(2, 'big')",
                  "payload_byte_identical": "gn_req().data[4:] == request.data and gn_req().length == len(request.data) + 4",
                  "upper_protocol": "gn_req().upper_protocol_entity == request.btp_type",
                  "transport_parameters_copied": "gn_req().packet_transport_type == request.gn_packet_transport_type and gn_req().area == request.gn_area and gn_req().traffic_class == request.traffic_class and gn_req().max_hop_limit == request.gn_max_hop_limit and gn_req().max_packet_lifetime == request.gn_max_packet_lifetime",
                  "security_parameters_copied": "gn_req().security_profile == request.security_profile and gn_req().its_aid == request.its_aid and gn_req().security_permissions == request.security_permissions",
                  "destination_address_copied": "same_gn_addr(gn_req().destination, request.gn_destination_address)"},
         canary={"ports_swapped": "gn_req().data[0:2] == request.source_port.to_bytes(2, 'big')"}, **S)

IND_IN = T.rec(f"{SAP}:GNDataIndication", packet_transport_type=PTT, source_position_vector=LPV, traffic_class=TC,
               destination_area=T.opt(AREA), data=T.bytes(4, 2000), remaining_packet_lifetime=T.opt(T.float()),
               remaining_hop_limit=T.opt(T.int()), upper_protocol_entity=T.enum(f"{SAP}:CommonNH"))
UP_POST = {
    "at_most_one_handler": "len(ghost('callbacks')) <= 1",
    "only_the_handler_of_the_destination_port": "implies(len(ghost('callbacks')) == 1, map_has(self.indication_callbacks, be(gn_data_indication.data, 0, 2)) and ghost('callbacks')[0][0] is map_get(self.indication_callbacks, be(gn_data_indication.data, 0, 2)))",
    "handler_called_when_registered": "implies(map_has(self.indication_callbacks, be(gn_data_indication.data, 0, 2)), len(ghost('callbacks')) == 1)",
    "payload_byte_identical": "implies(len(ghost('callbacks')) == 1, handed().data == gn_data_indication.data[4:] and handed().length == len(gn_data_indication.data) - 4)",
    "destination_port": "implies(len(ghost('callbacks')) == 1, handed().destination_port == be(gn_data_indication.data, 0, 2))",
    "sender_position_vector_and_transport_type": "implies(len(ghost('callbacks')) == 1, same_lpv(handed().gn_source_position_vector, gn_data_indication.source_position_vector) and handed().gn_packet_transport_type == gn_data_indication.packet_transport_type and handed().gn_traffic_class == gn_data_indication.traffic_class)",
}
contract(f"{BR}:Router.btp_b_data_indication", props=["C01", "C04"], shapes={"self": BTPROUTER, "gn_data_indication": IND_IN},
         raises={"RuntimeError": "self.indication_callbacks is None"},
         ensures=dict(UP_POST, port_info="implies(len(ghost('callbacks')) == 1, handed().destination_port_info == be(gn_data_indication.data, 2, 2))"),
         cover=["len(ghost('callbacks')) == 1", "len(ghost('callbacks')) == 0"], **S)
contract(f"{BR}:Router.btp_a_data_indication", props=["C01", "C04"], shapes={"self": BTPROUTER, "gn_data_indication": IND_IN},
         raises={"RuntimeError": "self.indication_callbacks is None"},
         ensures=dict(UP_POST, source_port="implies(len(ghost('callbacks')) == 1, handed().source_port == be(gn_data_indication.data, 2, 2))"),
         cover=["len(ghost('callbacks')) == 1"], **S)
contract(f"{BR}:Router.btp_data_indication", props=["C01", "C04"], shapes={"self": BTPROUTER, "gn_data_indication": IND_IN},
         raises={"ValueError": "gn_data_indication.upper_protocol_entity.value != 1 and gn_data_indication.upper_protocol_entity.value != 2",
                 "RuntimeError": "(gn_data_indication.upper_protocol_entity.value == 1 or gn_data_indication.upper_protocol_entity.value == 2) and self.indication_callbacks is None"},
         inline=[f"{BR}:Router.btp_a_data_indication", f"{BR}:Router.btp_b_data_indication"],
         ensures=dict(UP_POST, second_field="implies(len(ghost('callbacks')) == 1, (handed().destination_port_info if gn_data_indication.upper_protocol_entity.value == 2 else handed().source_port) == be(gn_data_indication.data, 2, 2))"),
         **S)
