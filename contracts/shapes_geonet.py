from pyvc.shapes import T

PV = "flexstack.geonet.position_vector"
GA = "flexstack.geonet.gn_address"
BH = "flexstack.geonet.basic_header"
CH = "flexstack.geonet.common_header"
SAP = "flexstack.geonet.service_access_point"

MID = T.rec(f"{GA}:MID", mid=T.bytes_n(6))
GNADDR = T.rec(f"{GA}:GNAddress", mid=MID)
TST = T.rec(f"{PV}:TST")
LPV = T.rec(f"{PV}:LongPositionVector", gn_addr=GNADDR, tst=TST)
SPV = T.rec(f"{PV}:ShortPositionVector", gn_addr=GNADDR, tst=TST)
LTS = T.rec(f"{BH}:LT")
BASIC = T.rec(f"{BH}:BasicHeader", lt=LTS)
TC = T.rec(f"{SAP}:TrafficClass")
HST_ANY = T.oneof(T.enum(f"{SAP}:HeaderSubType"), T.enum(f"{SAP}:GeoAnycastHST"), T.enum(f"{SAP}:GeoBroadcastHST"),
                  T.enum(f"{SAP}:TopoBroadcastHST"), T.enum(f"{SAP}:LocationServiceHST"))
COMMON = T.rec(f"{CH}:CommonHeader", tc=TC, hst=HST_ANY)
LPV_R = LPV

GBCH = "flexstack.geonet.gbc_extended_header"
TSBH = "flexstack.geonet.tsb_extended_header"
GUCH = "flexstack.geonet.guc_extended_header"
LSH = "flexstack.geonet.ls_extended_header"
BTPH = "flexstack.btp.btp_header"
GBC = T.rec(f"{GBCH}:GBCExtendedHeader", so_pv=LPV)
TSB = T.rec(f"{TSBH}:TSBExtendedHeader", so_pv=LPV)
GUC = T.rec(f"{GUCH}:GUCExtendedHeader", so_pv=LPV, de_pv=SPV)
LSREQ = T.rec(f"{LSH}:LSRequestExtendedHeader", so_pv=LPV, request_gn_addr=GNADDR)
LSREP = T.rec(f"{LSH}:LSReplyExtendedHeader", so_pv=LPV, de_pv=SPV)
BTPA = T.rec(f"{BTPH}:BTPAHeader")
BTPB = T.rec(f"{BTPH}:BTPBHeader")
MIBM = "flexstack.geonet.mib"
MIB = T.rec(f"{MIBM}:MIB", itsGnLocalGnAddr=GNADDR, itsGnBeaconServiceMaxJitter=T.opt(T.float()))
AREA = T.rec(f"{SAP}:Area")
PTT = T.rec(f"{SAP}:PacketTransportType", header_subtype=HST_ANY)
GNREQ = T.rec(f"{SAP}:GNDataRequest", packet_transport_type=PTT, traffic_class=TC, area=AREA, data=T.bytes(0, 1500),
              security_permissions=T.bytes(0, 64), destination=T.opt(GNADDR),
              security_profile=T.enum("flexstack.security.security_profiles:SecurityProfile"))
