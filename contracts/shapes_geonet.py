from pyvc.shapes import T

PV = "flexstack.geonet.position_vector"
GA = "flexstack.geonet.gn_address"
BH = "flexstack.geonet.basic_header"
CH = "flexstack.geonet.common_header"
SAP = "flexstack.geonet.service_access_point"

MID = T.rec(f"{GA}:MID", mid=T.bytes_n(6))
GNADDR = T.rec(f"{GA}:GNAddress", mid=MID)
TST = T.rec(f"{PV}:TST")
LPV = T.rec(f"{PV}:LongPositionVector", gn_addr=GNADDR, tst=TST)
SPV = T.rec(f"{PV}:ShortPositionVector", gn_addr=GNADDR, tst=TST)
LTS = T.rec(f"{BH}:LT")
BASIC = T.rec(f"{BH}:BasicHeader", lt=LTS)
TC = T.rec(f"{SAP}:TrafficClass")
HST_ANY = T.oneof(T.enum(f"{SAP}:HeaderSubType"), T.enum(f"{SAP}:GeoAnycastHST"), T.enum(f"{SAP}:GeoBroadcastHST"),
                  T.enum(f"{SAP}:TopoBroadcastHST"), T.enum(f"{SAP}:LocationServiceHST"))
COMMON = T.rec(f"{CH}:CommonHeader", tc=TC, hst=HST_ANY)
LPV_R = LPV

GBCH = "flexstack.geonet.gbc_extended_header"
TSBH = "flexstack.geonet.tsb_extended_header"
GUCH = "flexstack.geonet.guc_extended_header"
LSH = "flexstack.geonet.ls_extended_header"
BTPH = "flexstack.btp.btp_header"
GBC = T.rec(f"{GBCH}:GBCExtendedHeader", so_pv=LPV)
TSB = T.rec(f"{TSBH}:TSBExtendedHeader", so_pv=LPV)
GUC = T.rec(f"{GUCH}:GUCExtendedHeader", so_pv=LPV, de_pv=SPV)
LSREQ = T.rec(f"{LSH}:LSRequestExtendedHeader", so_pv=LPV, request_gn_addr=GNADDR)
LSREP = T.rec(f"{LSH}:LSReplyExtendedHeader", so_pv=LPV, de_pv=SPV)
BTPA = T.rec(f"{BTPH}:BTPAHeader")
BTPB = T.rec(f"{BTPH}:BTPBHeader")
MIBM = "flexstack.geonet.mib"
MIB = T.rec(f"{MIBM}:MIB", itsGnLocalGnAddr=GNADDR, itsGnBeaconServiceMaxJitter=T.opt(T.float()))
AREA = T.rec(f"{SAP}:Area")
PTT = T.rec(f"{SAP}:PacketTransportType", header_subtype=HST_ANY)
GNREQ = T.rec(f"{SAP}:GNDataRequest", packet_transport_type=PTT, traffic_class=TC, area=AREA, data=T.bytes(0, 1500),
              security_permissions=T.bytes(0, 64), destination=T.opt(GNADDR),
              security_profile=T.enum("flexstack.security.security_profiles:SecurityProfile"))
RT = "flexstack.geonet.router"
ROUTER = T.obj(f"{RT}:Router", mib=MIB, ego_position_vector_lock=T.lock, ego_position_vector=LPV,
               link_layer=T.opt(T.opaque("link_layer")), location_table=T.opaque("location_table"),
               sign_service=T.opt(T.opaque("sign_service")), verify_service=T.opt(T.opaque("verify_service")),
               indication_callback=T.opt(T.callback), sequence_number_lock=T.lock, sequence_number=T.int(0, 65534),
               _beacon_reset_event=T.opt(T.opaque("event")), _ls_lock=T.lock, _cbf_lock=T.lock,
               _cbf_buffer=T.opaque("cbf_buffer"), _ls_timers=T.opaque("ls_timers"),
               _ls_retransmit_counters=T.opaque("ls_counters"), _ls_packet_buffers=T.opaque("ls_buffers"))
PTT_SHB = T.rec(f"{SAP}:PacketTransportType", header_type=T.enum(f"{SAP}:HeaderType", only=["TSB"]),
                header_subtype=T.enum(f"{SAP}:TopoBroadcastHST", only=["SINGLE_HOP"]))
PTT_GBC = T.rec(f"{SAP}:PacketTransportType", header_type=T.enum(f"{SAP}:HeaderType", only=["GEOBROADCAST"]),
                header_subtype=T.enum(f"{SAP}:GeoBroadcastHST"))
PTT_GAC = T.rec(f"{SAP}:PacketTransportType", header_type=T.enum(f"{SAP}:HeaderType", only=["GEOANYCAST"]),
                header_subtype=T.enum(f"{SAP}:GeoAnycastHST"))
PTT_GUC = T.rec(f"{SAP}:PacketTransportType", header_type=T.enum(f"{SAP}:HeaderType", only=["GEOUNICAST"]),
                header_subtype=T.enum(f"{SAP}:HeaderSubType"))


def gnreq(ptt):
    return T.rec(f"{SAP}:GNDataRequest", packet_transport_type=ptt, traffic_class=TC, area=AREA, data=T.bytes(0, 1500),
                 security_permissions=T.bytes(0, 64), destination=T.opt(GNADDR),
                 security_profile=T.enum("flexstack.security.security_profiles:SecurityProfile"))

from pyvc.shapes import CLASS_SHAPES
CLASS_SHAPES.update({f"{GA}:MID": MID, f"{GA}:GNAddress": GNADDR, f"{PV}:LongPositionVector": LPV,
                     f"{PV}:ShortPositionVector": SPV, f"{CH}:CommonHeader": COMMON, f"{GBCH}:GBCExtendedHeader": GBC,
                     f"{TSBH}:TSBExtendedHeader": TSB, f"{GUCH}:GUCExtendedHeader": GUC,
                     f"{LSH}:LSRequestExtendedHeader": LSREQ, f"{LSH}:LSReplyExtendedHeader": LSREP,
                     f"{SAP}:PacketTransportType": PTT, f"{MIBM}:MIB": MIB})
IND = T.rec(f"{SAP}:GNDataIndication", packet_transport_type=PTT, source_position_vector=LPV, traffic_class=TC,
            destination_area=T.opt(AREA), data=T.bytes(0, 2000), remaining_packet_lifetime=T.opt(T.float()),
            remaining_hop_limit=T.opt(T.int()))
CLASS_SHAPES[f"{SAP}:GNDataIndication"] = IND
CLASS_SHAPES[f"{SAP}:GNDataRequest"] = GNREQ
