from pyvc.shapes import T

PV = "flexstack.geonet.position_vector"
GA = "flexstack.geonet.gn_address"
BH = "flexstack.geonet.basic_header"
CH = "flexstack.geonet.common_header"
SAP = "flexstack.geonet.service_access_point"

MID = T.rec(f"{GA}:MID", mid=T.bytes_n(6))
GNADDR = T.rec(f"{GA}:GNAddress", mid=MID)
TST = T.rec(f"{PV}:TST")
LPV = T.rec(f"{PV}:LongPositionVector", gn_addr=GNADDR, tst=TST)
SPV = T.rec(f"{PV}:ShortPositionVector", gn_addr=GNADDR, tst=TST)
LTS = T.rec(f"{BH}:LT")
BASIC = T.rec(f"{BH}:BasicHeader", lt=LTS)
TC = T.rec(f"{SAP}:TrafficClass")
HST_ANY = T.oneof(T.enum(f"{SAP}:HeaderSubType"), T.enum(f"{SAP}:GeoAnycastHST"), T.enum(f"{SAP}:GeoBroadcastHST"),
                  T.enum(f"{SAP}:TopoBroadcastHST"), T.enum(f"{SAP}:LocationServiceHST"))
COMMON = T.rec(f"{CH}:CommonHeader", tc=TC, hst=HST_ANY)
LPV_R = LPV

