"""C04: the receive loops of the link layers contain every error of the receive path and keep running; the MAC filter.

The loop bodies are verified for ONE ARBITRARY ITERATION (loop rule with invariant): the ghost logs are empty at the loop
head of that iteration, so the invariant clauses about the logs describe exactly what a single iteration did."""
from pyvc.contracts import contract, T
from pyvc.values import NONE, Opaque, RaiseV, TupleV, BytesV
import z3

LL = "flexstack.linklayer"


def setup(e):
    def h_socket(e2, st, o, name, args, kwargs):
        e2.used_assumptions.add("socket.recv returns some frame of at most the requested size or raises OSError (closed socket)")
        if name == "recv":
            v, cs = e2.sym_bytes(e2.fresh("frame"), 0, 1500)
            s1 = st
            for c in cs:
                s1 = s1.assume(c)
            yield s1.ghost_append("rx", v), v
            yield st, RaiseV(e2.exc("OSError", "socket closed"))
        else:
            raise NotImplementedError(name)

    def h_rx_callback(e2, st, o, name, args, kwargs):
        e2.used_assumptions.add("the receive callback (GN router) may return or raise ANY exception derived from Exception")
        s1 = st.ghost_append("callbacks", TupleV([o] + list(args)))
        yield s1, NONE
        for exc in ("Exception", "ValueError", "NotImplementedError", "IndexError", "KeyError", "OSError", "struct.error"):
            yield s1, RaiseV(e2.exc(exc, "raised while processing the frame"))
        for q in ("flexstack.geonet.exceptions:DecodeError", "flexstack.geonet.exceptions:DecapError",
                  "flexstack.geonet.exceptions:DuplicatedPacketException"):
            from pyvc.values import ExcV
            yield s1, RaiseV(ExcV(q.split(":")[1], e2.repo.class_by_qual(q), ()))

    def h_queue(e2, st, o, name, args, kwargs):
        e2.used_assumptions.add("multiprocessing.Queue.get returns some frame or None (the stop marker)")
        if name == "get":
            v, cs = e2.sym_bytes(e2.fresh("frame"), 0, 1500)
            s1 = st
            for c in cs:
                s1 = s1.assume(c)
            yield s1.ghost_append("rx", v), v
            yield st, NONE
        else:
            raise NotImplementedError(name)
    e.opaque_handlers.update({"socket": h_socket, "rx_callback": h_rx_callback, "queue": h_queue})
    e.external_handlers["print"] = lambda e2, st, a, k: iter([(st, NONE)])


S = dict(mode="int", spec_module="spec_sec", engine_setup=setup, frame_check=False, props=["C04"])
_ONE = "len(ghost('rx')) <= 1 and len(ghost('callbacks')) <= len(ghost('rx'))"
contract(f"{LL}.raw_link_layer:RawLinkLayer.receive",
         shapes={"self": T.obj(f"{LL}.raw_link_layer:RawLinkLayer", sock=T.opaque("socket"), mac_address=T.bytes_n(6),
                               receive_callback=T.opaque("rx_callback"))},
         loops={"while#0": {"invariant": [
             _ONE,
             "implies(len(ghost('callbacks')) == 1, ghost('callbacks')[0][1] == ghost('rx')[0][14:])",
             "implies(len(ghost('rx')) == 1, (len(ghost('callbacks')) == 1) == (ghost('rx')[0][0:6] == self.mac_address or (ghost('rx')[0][0:6] == b'\\xff\\xff\\xff\\xff\\xff\\xff' and ghost('rx')[0][6:12] != self.mac_address)))"]}},
         ensures={"loop_ends_only_when_the_socket_is_closed": "len(ghost('rx')) == 0 and len(ghost('callbacks')) == 0"},
         note="no `raises`/`may_raise`: every path on which an exception leaves receive() is a failed obligation", **S)
contract(f"{LL}.cv2x_link_layer:PythonCV2XLinkLayer.callback_handler_loop",
         shapes={"self": T.obj(f"{LL}.cv2x_link_layer:PythonCV2XLinkLayer", receive_callback=T.opaque("rx_callback")), "callback_queue": T.opaque("queue")},
         loops={"while#0": {"invariant": [_ONE, "implies(len(ghost('rx')) == 1, len(ghost('callbacks')) == 1 and ghost('callbacks')[0][1] == ghost('rx')[0])"]}},
         ensures={"loop_ends_only_on_the_stop_marker_never_on_a_received_frame": "len(ghost('rx')) == 0 and len(ghost('callbacks')) == 0"}, **S)
