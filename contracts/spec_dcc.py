"""Spec for C19 (TS 102 687).  The Annex A rows are transcribed from the standard's tables as reproduced in the
module documentation; they are part of the trusted base (DESIGN §5 C19)."""
from flexstack.management.dcc_reactive import DccState

# state index -> (cbr_min, cbr_max, packet_rate_hz, t_off_ms)
A1 = {0: (0.0, 0.3, 10.0, 100.0), 1: (0.3, 0.4, 5.0, 200.0), 2: (0.4, 0.5, 2.5, 400.0), 3: (0.5, 0.6, 2.0, 500.0),
      4: (0.6, 1.01, 1.0, 1000.0)}
A2 = {0: (0.0, 0.3, 20.0, 50.0), 1: (0.3, 0.4, 10.0, 100.0), 2: (0.4, 0.5, 5.0, 200.0), 3: (0.5, 0.65, 4.0, 250.0),
      4: (0.65, 1.01, 1.0, 1000.0)}


def uses_a2(d):
    return d._table[DccState.RELAXED].t_off_ms == 50.0


def band(a2, cbr):
    """index of the state whose CBR band contains cbr (cbr in [0, 1])"""
    if cbr < 0.3:
        return 0
    if cbr < 0.4:
        return 1
    if cbr < 0.5:
        return 2
    if cbr < (0.65 if a2 else 0.6):
        return 3
    return 4


def rate(a2, i):
    return A2[i][2] if a2 else A1[i][2]


def t_off(a2, i):
    return A2[i][3] if a2 else A1[i][3]


def step_toward(cur, target):
    if target > cur:
        return cur + 1
    if target < cur:
        return cur - 1
    return cur


def clamp(x, lo, hi):
    """min(max(x, lo), hi)"""
    y = x if x > lo else lo
    return y if y < hi else hi


def adaptive_offset(p, cbr_its_s):
    """TS 102 687 clause 5.4 step 3 (eq. 2 / eq. 3)"""
    diff = p.cbr_target - cbr_its_s
    if diff > 0:
        return p.beta * diff if p.beta * diff < p.delta_up_max else p.delta_up_max
    return p.beta * diff if p.beta * diff > p.delta_down_max else p.delta_down_max


def adaptive_delta(p, delta_old, cbr_its_s):
    """steps 4 and 5: delta = (1 - alpha) * delta + offset, then limited to [delta_min, delta_max]"""
    d = (1 - p.alpha) * delta_old + adaptive_offset(p, cbr_its_s)
    d = p.delta_max if d > p.delta_max else d
    return p.delta_min if d < p.delta_min else d


def gate_interval(t_on, delta):
    """eq. B.1: T_go - T_pg = min(max(T_on / delta, 25 ms), 1 s)"""
    return clamp(t_on / delta, 0.025, 1.0)
