"""C02 / C01: extended headers and BTP headers (codec mode).  Callee codecs are used through their contracts."""
from pyvc.contracts import contract, T
from .shapes_geonet import *

S = dict(mode="bv", spec_module="spec_geonet")
P = ["C02", "C01", "C06"]
DE = "flexstack.geonet.exceptions:DecodeError"

contract(f"{GBCH}:GBCExtendedHeader.encode", returns=T.bytes_n(44), props=P + ["C07"], shapes={"self": GBC}, requires=["gbc_valid(self)"],
         ensures={"wire": "result == gbc_int(self).to_bytes(44, 'big')"},
         canary={"ab_swapped": "result == (gbc_int(self) + (self.b - self.a) * 2 ** 48 + (self.a - self.b) * 2 ** 32).to_bytes(44, 'big') and self.a != self.b"}, **S)
contract(f"{GBCH}:GBCExtendedHeader.decode", props=P + ["C04", "C07"], shapes={"header": T.bytes(0, 2000)}, returns=GBC,
         raises={DE: "len(header) < 44", "ValueError": "len(header) >= 44 and st_field(header, 4) > 12"},
         ensures={"sn": "result.sn == be(header, 0, 2)", "reserved": "result.reserved == be(header, 2, 2)",
                  "so_pv": "lpv_of_bytes_ok(result.so_pv, header, 4)",
                  "area": "result.latitude == sgn(be(header, 28, 4), 32) and result.longitude == sgn(be(header, 32, 4), 32) and result.a == be(header, 36, 2) and result.b == be(header, 38, 2) and result.angle == be(header, 40, 2)",
                  "reserved2": "result.reserved2 == be(header, 42, 2)"},
         canary={"lat_unsigned": "result.latitude == be(header, 28, 4)"}, **S)
contract(f"{TSBH}:TSBExtendedHeader.encode", returns=T.bytes_n(28), props=P, shapes={"self": TSB}, requires=["ext_valid(self)"],
         ensures={"wire": "result == tsb_int(self).to_bytes(28, 'big')"}, **S)
contract(f"{TSBH}:TSBExtendedHeader.decode", props=P + ["C04"], shapes={"header": T.bytes(0, 2000)}, returns=TSB,
         raises={DE: "len(header) < 28", "ValueError": "len(header) >= 28 and st_field(header, 4) > 12"},
         ensures={"sn": "result.sn == be(header, 0, 2)", "reserved": "result.reserved == be(header, 2, 2)",
                  "so_pv": "lpv_of_bytes_ok(result.so_pv, header, 4)"}, **S)
contract(f"{GUCH}:GUCExtendedHeader.encode", returns=T.bytes_n(48), props=P, shapes={"self": GUC},
         requires=["ext_valid(self)", "spv_valid(self.de_pv)"],
         ensures={"wire": "result == guc_int(self).to_bytes(48, 'big')"}, **S)
contract(f"{GUCH}:GUCExtendedHeader.decode", props=P + ["C04"], shapes={"header": T.bytes(0, 2000)}, returns=GUC,
         raises={DE: "len(header) < 48",
                 "ValueError": "len(header) >= 48 and (st_field(header, 4) > 12 or st_field(header, 28) > 12)"},
         ensures={"sn": "result.sn == be(header, 0, 2)", "reserved": "result.reserved == be(header, 2, 2)",
                  "so_pv": "lpv_of_bytes_ok(result.so_pv, header, 4)",
                  "de_pv": "spv_of_bytes_ok(result.de_pv, header, 28)"}, **S)
contract(f"{GUCH}:GUCExtendedHeader.with_de_pv", props=["C02", "C06"], shapes={"self": GUC, "de_pv": SPV},
         ensures={"de": "same_spv(result.de_pv, de_pv)",
                  "rest": "result.sn == self.sn and result.reserved == self.reserved and same_lpv(result.so_pv, self.so_pv)"}, **S)
contract(f"{LSH}:LSRequestExtendedHeader.encode", returns=T.bytes_n(36), props=P, shapes={"self": LSREQ}, requires=["ext_valid(self)"],
         ensures={"wire": "result == ls_request_int(self).to_bytes(36, 'big')"}, **S)
contract(f"{LSH}:LSRequestExtendedHeader.decode", props=P + ["C04"], shapes={"header": T.bytes(0, 2000)}, returns=LSREQ,
         raises={DE: "len(header) < 36",
                 "ValueError": "len(header) >= 36 and (st_field(header, 4) > 12 or st_field(header, 28) > 12)"},
         ensures={"sn": "result.sn == be(header, 0, 2)", "reserved": "result.reserved == be(header, 2, 2)",
                  "so_pv": "lpv_of_bytes_ok(result.so_pv, header, 4)",
                  "addr": "result.request_gn_addr.m.value == bits(be(header, 28, 1), 7, 1) and result.request_gn_addr.st.value == st_field(header, 28) and result.request_gn_addr.mid.mid == header[30:36]"}, **S)
contract(f"{LSH}:LSReplyExtendedHeader.encode", returns=T.bytes_n(48), props=P, shapes={"self": LSREP},
         requires=["ext_valid(self)", "spv_valid(self.de_pv)"],
         ensures={"wire": "result == guc_int(self).to_bytes(48, 'big')"}, **S)
contract(f"{LSH}:LSReplyExtendedHeader.decode", props=P + ["C04"], shapes={"header": T.bytes(0, 2000)}, returns=LSREP,
         raises={DE: "len(header) < 48",
                 "ValueError": "len(header) >= 48 and (st_field(header, 4) > 12 or st_field(header, 28) > 12)"},
         ensures={"sn": "result.sn == be(header, 0, 2)", "reserved": "result.reserved == be(header, 2, 2)",
                  "so_pv": "lpv_of_bytes_ok(result.so_pv, header, 4)",
                  "de_pv": "spv_of_bytes_ok(result.de_pv, header, 28)"}, **S)

# ---------------------------------------------------------------- BTP headers
contract(f"{BTPH}:BTPAHeader.encode", returns=T.bytes_n(4), props=P, shapes={"self": BTPA},
         requires=["0 <= self.destination_port < 65536", "0 <= self.source_port < 65536"],
         ensures={"wire": "result == (self.destination_port * 65536 + self.source_port).to_bytes(4, 'big')"},
         canary={"swapped": "result == (self.source_port * 65536 + self.destination_port).to_bytes(4, 'big') and self.source_port != self.destination_port"}, **S)
_BTP_IN = T.oneof(T.bytes(4, 2000), T.bytes_n(0), T.bytes_n(1), T.bytes_n(2), T.bytes_n(3))
contract(f"{BTPH}:BTPAHeader.decode", props=P + ["C04"], shapes={"data": _BTP_IN},
         ensures={"fields": "implies(len(data) >= 4, result.destination_port == be(data, 0, 2) and result.source_port == be(data, 2, 2))",
                  "a_payload_shorter_than_the_header_raises_nothing": "implies(len(data) < 4, 0 <= result.destination_port < 65536 and 0 <= result.source_port < 65536)"}, **S)
contract(f"{BTPH}:BTPBHeader.encode", returns=T.bytes_n(4), props=P, shapes={"self": BTPB},
         requires=["0 <= self.destination_port < 65536", "0 <= self.destination_port_info < 65536"],
         ensures={"wire": "result == (self.destination_port * 65536 + self.destination_port_info).to_bytes(4, 'big')"}, **S)
contract(f"{BTPH}:BTPBHeader.decode", props=P + ["C04"], shapes={"data": _BTP_IN},
         ensures={"fields": "implies(len(data) >= 4, result.destination_port == be(data, 0, 2) and result.destination_port_info == be(data, 2, 2))",
                  "a_payload_shorter_than_the_header_raises_nothing": "implies(len(data) < 4, 0 <= result.destination_port < 65536 and 0 <= result.destination_port_info < 65536)"}, **S)
