"""Spec for the location table (C06 duplicate packet list, C08 position-vector / lifetime / neighbour rules)."""


def dpl_wf(e):
    """ring invariant: the set is exactly the content of the deque (positions lo..hi-1 of a ghost array, with a ghost
    inverse map value -> position), no repetition, at most maxlen >= 1 entries.  Universal quantifiers only, with
    array reads as triggers."""
    d = e.dpl_deque
    s = e.dpl_set
    return (forall(lambda p: implies(dq_lo(d) <= p < dq_hi(d), set_has(s, dq_at_pos(d, p)) and dq_pos_of(d, dq_at_pos(d, p)) == p))
            and forall(lambda x: implies(set_has(s, x), dq_lo(d) <= dq_pos_of(d, x) < dq_hi(d) and dq_at_pos(d, dq_pos_of(d, x)) == x))
            and 0 <= dq_len(d) <= dq_maxlen(d) and dq_maxlen(d) >= 1)


def tst_newer(a, b):
    """EN 302 636-4-1 Annex C.2: a is later than b in wrap-around (serial number) order"""
    d = (a - b) % 2 ** 32
    return 0 < d < 2 ** 31 or (d == 2 ** 31 and a > b)


def now_its_ms():
    """the receiver's clock in ITS milliseconds (ghost real `now` in seconds, millisecond resolution, unreduced)"""
    return int((now() - 1072915200 + 5) * 1000)


def age_ms(now_ms, tst_msec):
    """signed age of a 32-bit timestamp relative to the (unreduced) clock: the representative of
    (now - tst) mod 2^32 in [-2^31, 2^31)"""
    d = (now_ms - tst_msec) % 2 ** 32
    return d - 2 ** 32 if d >= 2 ** 31 else d


def sgn32(d):
    """representative of d (0 <= d < 2^32) in [-2^31, 2^31)"""
    return d - 2 ** 32 if d >= 2 ** 31 else d


def clock_tst_ms():
    """the 32-bit ITS time stamp of the local clock truncated to whole seconds (what refresh_table compares with)"""
    return int(((int(now()) - 1072915200 + 5) * 1000) % 2 ** 32)


def gn_key_eq(a, b):
    """dict-key identity of GN addresses (hash of all fields and ==)"""
    return a.m == b.m and a.st == b.st and a.mid.mid == b.mid.mid


def entry_ok(e):
    return dpl_wf(e) and e.pdr >= 0 and 0 <= e.mib.itsGnMaxPacketDataRateEmaBeta <= 100 and e.mib.itsGnDPLLength >= 1


def K0(t):
    return map_key0(t.loc_t)


def newest_pv(old_pv, pv):
    return pv if (old_pv.tst.msec == 0 or tst_newer(pv.tst.msec, old_pv.tst.msec)) else old_pv


def all_zero_addr(a):
    """the all-zero GN address (the value a fresh position vector carries)"""
    return a.m.value == 0 and a.st.value == 0 and a.mid.mid == b'\x00\x00\x00\x00\x00\x00'
