"""Spec for the location table (C06 duplicate packet list, C08 position-vector / lifetime / neighbour rules)."""


def dpl_wf(e):
    """ring invariant: the set is exactly the content of the deque, no repetition, at most maxlen >= 1 entries"""
    d = e.dpl_deque
    s = e.dpl_set
    return (forall(lambda i: implies(0 <= i < dq_len(d), set_has(s, dq_at(d, i)) and dq_idx(d, dq_at(d, i)) == i))
            and forall(lambda x: implies(set_has(s, x), 0 <= dq_idx(d, x) < dq_len(d) and dq_at(d, dq_idx(d, x)) == x))
            and 0 <= dq_len(d) <= dq_maxlen(d) and dq_maxlen(d) >= 1)


def tst_newer(a, b):
    """EN 302 636-4-1 Annex C.2: a is later than b in wrap-around (serial number) order"""
    d = (a - b) % 2 ** 32
    return 0 < d < 2 ** 31 or (d == 2 ** 31 and a > b)
