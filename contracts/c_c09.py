"""C09: permission containment, chain-length and signature obligations on the real Certificate / OwnCertificate methods
(certificate dictionaries with BOUNDED permission lists: at most two permission groups of at most two PSIDs), and
admission contracts of the CertificateLibrary (unbounded: the stores are symbolic-key maps)."""
from pyvc.contracts import contract, T
from . import models_sec

SS = "flexstack.security"
CERT = f"{SS}.certificate:Certificate"
OWN = f"{SS}.certificate:OwnCertificate"


def psids(n):
    return T.list(*[T.dict(_open=True, psid=T.int(0, 2 ** 32)) for _ in range(n)])


def group(kind):
    sp = T.tuple(T.const("all"), T.none) if kind == "all" else T.tuple(T.const("explicit"), psids(kind))
    return T.dict(_open=True, subjectPermissions=sp, minChainLength=T.int(-2, 255), chainLengthRange=T.int(-1, 255))


import os as _os
THOROUGH = _os.environ.get("PYVC_TIER") == "thorough"
GROUPS = [[], ["all"], [1], [2], [1, "all"], [2, 1]] + ([[2, 2], ["all", 1], [1, 1, "all"], [3]] if THOROUGH else [])


def tbs(app_lens=(0, 1, 2), groups=GROUPS, id_kinds=("name", "none")):
    alts = []
    for g in groups:
        for a in app_lens:
            ent = dict(id=T.tuple(T.strs(*id_kinds), T.opaque("object")),
                       verifyKeyIndicator=T.tuple(T.strs("verificationKey", "reconstructionValue"), T.tuple(T.strs("ecdsaNistP256", "ecdsaBrainpoolP256r1"), T.opaque("object"))))
            if a is not None:
                ent["appPermissions"] = psids(a)
            if g is not None:
                ent["certIssuePermissions"] = T.list(*[group(k) for k in g])
            alts.append(T.dictk(ent))
    return T.oneof(*alts)


SIGVAL = T.dict(_open=True, rSig=T.tuple(T.strs("x-only", "compressed-y-0", "compressed-y-1"), T.bytes_n(32)), sSig=T.bytes_n(32))


def cert_dict(sig=None, **kw):
    return T.dict(_open=True, type=(T.strs("explicit", "implicit"), "optional"),
                  issuer=T.oneof(T.tuple(T.const("self"), T.strs("sha256", "sha384")), T.tuple(T.const("sha256AndDigest"), T.bytes_n(8))),
                  toBeSigned=tbs(**kw), signature=T.tuple(T.strs("ecdsaNistP256Signature", "ecdsaBrainpoolP256r1Signature"), sig or T.opaque("object")))


def cert(issuer=None, **kw):
    return T.rec(CERT, certificate=cert_dict(**kw), issuer=issuer if issuer is not None else T.none)


ISSUER_GROUPS = [None] + GROUPS
ISSUER = cert(app_lens=(1,), groups=ISSUER_GROUPS)
SUBJECT = cert(groups=[None] + GROUPS, app_lens=(None, 0, 1, 2))
S = dict(mode="int", spec_module="spec_sec", engine_setup=models_sec.setup, frame_check=False, props=["C09"])

contract(f"{CERT}.get_list_of_needed_permissions", bound="certificate dictionaries with at most 2 permission groups of at most 2 PSIDs and at most 2 appPermissions", shapes={"self": cert(groups=[None] + GROUPS)},
         ensures={"exactly_the_app_and_explicit_issue_psids": "forall(lambda p: implies(0 <= p, (p in result) == (p in app_psids(self.certificate) or p in issue_psids(self.certificate))))"},
         **S)

contract(f"{CERT}.check_issuer_has_subject_permissions", bound="certificate dictionaries with at most 2 permission groups of at most 2 PSIDs and at most 2 appPermissions", shapes={"self": SUBJECT, "issuer": ISSUER}, inline=[f"{CERT}.get_list_of_needed_permissions"],
         raises={"KeyError": "'appPermissions' not in self.certificate['toBeSigned'] and not issues_all(issuer.certificate) and not issues_all(self.certificate)"},
         ensures={"true_only_if_every_needed_psid_is_issuable_by_the_issuer": "implies(result, issues_all(issuer.certificate) or explicitly_contained(self.certificate, issuer.certificate))",
                  "issuing_for_all_needs_an_issuer_that_issues_all": "implies(result and issues_all(self.certificate), issues_all(issuer.certificate))",
                  "contained_permissions_are_accepted": "implies(contained(self.certificate, issuer.certificate), result)"},
         canary={"always": "result", "never": "not result"}, **S)

OWNC = T.rec(OWN, certificate=cert_dict(groups=GROUPS, app_lens=(1,)), issuer=T.none, key_id=T.int(0))
contract(f"{OWN}.check_enough_min_chain_length_for_issuer", bound="certificate dictionaries with at most 2 permission groups of at most 2 PSIDs and at most 2 appPermissions", shapes={"self": OWNC},
         ensures={"true_iff_every_group_has_chain_length_left": "result == chain_length_allows(self.certificate)"},
         canary={"always": "result", "never": "not result"}, **S)

VSUBJ = cert(groups=[None, [1]], app_lens=(1,), sig=SIGVAL, issuer=T.oneof(T.none, cert(app_lens=(1,), groups=[["all"], [1]], sig=SIGVAL)))
_ISSUED = "self.certificate['issuer'][0] == 'sha256AndDigest'"
contract(f"{CERT}.verify", bound="certificate dictionaries with at most 2 permission groups of at most 2 PSIDs and at most 2 appPermissions", shapes={"self": VSUBJ, "backend": T.opaque("ecdsa_backend")}, may_raise=["Exception"], inline=[f"{CERT}.as_hashedid8"],
         ensures={
             "accepted_only_after_one_signature_check_that_passed": "implies(result, n_sig_checks() == 1 and sig_check()[3])",
             "signature_checked_over_this_certificates_to_be_signed_part": "implies(result, len(ghost('tbs_cert_encoded')) == 1 and tbs_cert_encoding()[0] is self.certificate['toBeSigned'] and sig_check()[0] == tbs_cert_encoding()[1] and sig_check()[1] == self.certificate['signature'])",
             "issued_certificate_checked_under_its_issuers_key": f"implies(result and {_ISSUED}, self.issuer is not None and sig_check()[2] == self.issuer.certificate['toBeSigned']['verifyKeyIndicator'][1])",
             "issued_certificate_names_its_issuer": f"implies(result and {_ISSUED}, self.certificate['issuer'][1] == self.issuer.as_hashedid8())",
             "issued_certificate_permissions_contained_in_issuers": f"implies(result and {_ISSUED}, contained(self.certificate, self.issuer.certificate))",
             "self_signed_checked_under_its_own_key": "implies(result and self.certificate['issuer'][0] == 'self', sig_check()[2] == self.certificate['toBeSigned']['verifyKeyIndicator'][1])",
             "only_nist_p256_signatures_and_keys": "implies(result, self.certificate['signature'][0] == 'ecdsaNistP256Signature' and self.certificate['toBeSigned']['verifyKeyIndicator'][0] == 'verificationKey' and self.certificate['toBeSigned']['verifyKeyIndicator'][1][0] == 'ecdsaNistP256')",
             "honest_issued_certificate_accepted": f"implies({_ISSUED} and self.issuer is not None and self.certificate.get('type') == 'explicit' and self.certificate['issuer'][1] == self.issuer.as_hashedid8() and contained(self.certificate, self.issuer.certificate) and self.certificate['signature'][0] == 'ecdsaNistP256Signature' and self.certificate['toBeSigned']['verifyKeyIndicator'][0] == 'verificationKey' and self.certificate['toBeSigned']['verifyKeyIndicator'][1][0] == 'ecdsaNistP256' and n_sig_checks() == 1 and sig_check()[3], result)"},
         cover=["result", "not result"], canary={"always": "result"}, **{**S, "props": ["C09", "C03"]})

# ------------------------------------------------------------------------------------------- the certificate library
LIBQ = f"{SS}.certificate_library:CertificateLibrary"
OC = lambda: T.opaque("cert")
CM = lambda: T.keymap("certmap", T.bytes_n(8), OC())
LIB = T.obj(LIBQ, own_certificates=CM(), known_authorization_tickets=CM(), known_authorization_authorities=CM(),
            known_root_certificates=CM(), ecdsa_backend=T.opaque("ecdsa_backend"))
L = dict(mode="int", spec_module="spec_sec", engine_setup=models_sec.setup_library, props=["C09", "C03", "C05"], frame_check=False, requires=["store_wf(self)"])
_AT, _AA, _ROOT = "self.known_authorization_tickets", "self.known_authorization_authorities", "self.known_root_certificates"

contract(f"{LIBQ}.get_issuer_certificate", shapes={"self": LIB, "certificate": OC()}, returns=T.opt(OC()),
         raises={"ValueError": "certificate.certificate['issuer'][0] != 'self' and certificate.certificate['issuer'][0] != 'sha256AndDigest'"},
         ensures={"an_issuer_is_found_only_if_the_named_issuer_is_trusted": "implies(result is not None, names_trusted_issuer(self, certificate))",
                  "the_issuer_found_is_the_stored_root": "implies(result is not None and map_has(self.known_root_certificates, certificate.certificate['issuer'][1]), result is map_get(self.known_root_certificates, certificate.certificate['issuer'][1]))",
                  "or_the_stored_authorization_authority": "implies(result is not None and not map_has(self.known_root_certificates, certificate.certificate['issuer'][1]), result is map_get(self.known_authorization_authorities, certificate.certificate['issuer'][1]))",
                  "a_trusted_issuer_is_found": "implies(names_trusted_issuer(self, certificate), result is not None)"}, **L)

for _fn, _m_, _others in (("add_authorization_ticket", _AT, (_AA, _ROOT)), ("add_authorization_authority", _AA, (_AT, _ROOT))):
    contract(f"{LIBQ}.{_fn}", shapes={"self": LIB, "certificate": OC()}, modifies=[_m_], may_raise=["ValueError"],
             ensures={"store_changes_only_by_admitting_this_certificate_under_its_own_digest": f"changed_only_by_admitting({_m_}, certificate)",
                      "nothing_is_replaced_or_removed": f"implies(old(map_has({_m_}, map_key0({_m_}))), unchanged({_m_}))",
                      "admitted_only_if_it_verifies": f"implies(not unchanged({_m_}), certificate.verify(self.ecdsa_backend))",
                      "admitted_only_if_it_names_a_trusted_issuer": f"implies(not unchanged({_m_}), names_trusted_issuer(self, certificate))",
                      "verified_certificate_of_a_trusted_issuer_is_admitted": f"implies(certificate.verify(self.ecdsa_backend) and names_trusted_issuer(self, certificate), map_has({_m_}, digest_of(certificate)))",
                      "other_stores_untouched": " and ".join(f"unchanged({o})" for o in _others), "stores_stay_keyed_by_digest": "store_wf(self)"},
             canary={"admits_everything": f"map_has({_m_}, digest_of(certificate))"}, **L)
contract(f"{LIBQ}.add_root_certificate", shapes={"self": LIB, "certificate": OC()}, modifies=[_ROOT],
         ensures={"roots_change_only_by_storing_this_certificate_under_its_own_digest": f"changed_only_by_admitting({_ROOT}, certificate)",
                  "configured_root_is_stored_only_if_it_verifies": f"implies(not unchanged({_ROOT}), certificate.verify(self.ecdsa_backend))",
                  "other_stores_untouched": f"unchanged({_AT}) and unchanged({_AA})", "stores_stay_keyed_by_digest": "store_wf(self)"}, **L)
contract(f"{LIBQ}.get_authorization_ticket_by_hashedid8", shapes={"self": LIB, "hashedid8": T.bytes_n(8)},
         ensures={"only_stored_tickets_are_returned": f"(result is not None) == map_has({_AT}, hashedid8) and implies(result is not None, result is map_get({_AT}, hashedid8))"}, **L)

MSGCERT = T.dict(_open=True, issuer=T.tuple(T.strs("self", "sha256AndDigest", "sha384AndDigest"), T.bytes_n(8)))
contract(f"{LIBQ}.verify_sequence_of_certificates",
         shapes={"self": LIB, "certificates": T.oneof(*[T.list(*[MSGCERT] * n) for n in range(5)]), "backend": T.opaque("ecdsa_backend")},
         returns=T.opt(OC()), modifies=[_AT, _AA], may_raise=["ValueError"],
         ensures={"a_returned_ticket_was_stored_or_has_a_verified_chain_to_a_stored_issuer": "implies(result is not None, (old(map_has(self.known_authorization_tickets, digest_of(result))) and result is old(map_get(self.known_authorization_tickets, digest_of(result)))) or chain_verified(self, result, backend))",
                  "a_ticket_verified_from_the_message_is_remembered_for_later_digest_signed_messages": "implies(result is not None and len(certificates) <= 2 and names_trusted_issuer(self, result), map_has(self.known_authorization_tickets, digest_of(result)))",
                  "ticket_store_changes_only_by_admitting_verified_certificates": f"implies(not unchanged({_AT}), map_get({_AT}, old(map_key0({_AT}))).verify(backend) and names_trusted_issuer(self, map_get({_AT}, old(map_key0({_AT})))))",
                  "authority_store_changes_only_by_admitting_verified_certificates": f"implies(not unchanged({_AA}), map_get({_AA}, old(map_key0({_AA}))).verify(backend) and names_trusted_issuer(self, map_get({_AA}, old(map_key0({_AA})))))",
                  "nothing_is_replaced_or_removed": f"implies(old(map_has({_AT}, map_key0({_AT}))), unchanged({_AT})) and implies(old(map_has({_AA}, map_key0({_AA}))), unchanged({_AA}))",
                  "roots_untouched": f"unchanged({_ROOT})", "stores_stay_keyed_by_digest": "store_wf(self)"},
         cover=["result is not None"], canary={"always_a_ticket": "result is not None"}, **L)

# ------------------------------------------------------------------------------------------- identity of a certificate
contract(f"{CERT}.as_hashedid8", shapes={"self": cert(groups=[None], app_lens=(1,), sig=SIGVAL)}, may_raise=["Exception"], returns=T.bytes_n(8),
         ensures={"digest_is_over_the_encoding_of_this_very_certificate": "len(ghost('cert_encoded')) == 1 and ghost('cert_encoded')[0][0] is self.certificate and len(ghost('hashed')) == 1 and ghost('hashed')[0][0] == ghost('cert_encoded')[0][1]",
                  "and_is_its_last_eight_bytes": "result == ghost('hashed')[0][1][-8:]"},
         **{**S, "props": ["C09", "C03"]})

# ------------------------------------------------------------------------------------------- issuing: chain length
contract(f"{CERT}.set_chain_length_issue_permissions",
         bound="certificate dictionaries with at most 2 permission groups of at most 2 PSIDs and at most 2 appPermissions", shapes={"self": cert(groups=[None, [1], ["all"], [2, 1]], app_lens=(1,)), "issuer": T.rec(OWN, certificate=cert_dict(groups=[["all"], [1], [2, 1], [1, "all"]], app_lens=(1,)), issuer=T.none, key_id=T.int(0))},
         returns=cert(groups=[None], app_lens=(1,)),
         ensures={"every_issuing_group_of_the_new_certificate_has_chain_length_left_and_one_less_than_an_issuer_group": "all(g['minChainLength'] >= 1 and any(g['minChainLength'] == ig['minChainLength'] - 1 for ig in issue_groups(issuer.certificate)) for g in issue_groups(result.certificate))",
                  "the_issuer_attribute_is_set": "result.issuer is not None"},
         **S)


# ------------------------------------------------------------------------------------------- issuing: what gets signed
from pyvc.contracts import REGISTRY as _R
from pyvc.values import TupleV as _TupleV


def _log(name, *keys):
    def g(e, st, env):
        return st.ghost_append(name, _TupleV([env[k] for k in keys]))
    return g


_R[f"{CERT}.set_chain_length_issue_permissions"].callsite_ensures = []
_R[f"{CERT}.check_issuer_has_subject_permissions"].ghost_effect = _log("permission_checks", "self", "issuer", "result")
_R[f"{OWN}.check_enough_min_chain_length_for_issuer"].ghost_effect = _log("budget_checks", "self", "result")
_ANYOWN = T.obj(OWN, certificate=T.opaque("object"), issuer=T.opaque("object"), key_id=T.int(0))
OWNC_O = T.obj(OWN, certificate=cert_dict(groups=GROUPS, app_lens=(1,)), issuer=T.none, key_id=T.int(0))
_REQ = T.obj(OWN, certificate=cert_dict(groups=[None, [1], ["all"]], app_lens=(1,)), issuer=T.none, key_id=T.int(0))
contract(f"{OWN}.set_issuer", props=[], assumed=True, shapes={"self": _REQ, "issuer": OWNC_O}, returns=_ANYOWN, ghost_effect=_log("set_issuer_calls", "self", "issuer", "result"),
         ensures={}, **{k: v for k, v in S.items() if k != "props"})
contract(f"{OWN}.set_chain_length_issue_permissions", props=[], assumed=True, shapes={"self": _REQ, "issuer": OWNC_O}, returns=_ANYOWN,
         ghost_effect=_log("chain_length_calls", "self", "issuer", "result"), ensures={}, **{k: v for k, v in S.items() if k != "props"})
contract(f"{OWN}.set_issuer_as_self", props=[], assumed=True, shapes={"self": _REQ}, returns=_ANYOWN, ghost_effect=_log("self_issuer_calls", "self", "result"),
         ensures={}, **{k: v for k, v in S.items() if k != "props"})
contract(f"{OWN}.sign_certificate", props=[], assumed=True, shapes={"self": OWNC_O, "backend": T.opaque("ecdsa_backend"), "certificate": _REQ}, returns=_ANYOWN,
         ghost_effect=_log("signed", "self", "certificate", "result"), ensures={}, **{k: v for k, v in S.items() if k != "props"})
contract(f"{OWN}.issue_certificate", bound="requests with no, one explicit or one unrestricted issuing group; issuers with the permission groups of the other C09 contracts",
         shapes={"self": OWNC_O, "backend": T.opaque("ecdsa_backend"), "certificate": _REQ}, returns=T.opaque("object"), may_raise=["KeyError"],
         callsite_ensures=[],
         ensures={"a_certificate_for_somebody_else_is_signed_only_after_both_issuing_checks_passed":
                  "implies(len(ghost('signed')) == 1 and len(ghost('self_issuer_calls')) == 0, len(ghost('permission_checks')) == 1 and ghost('permission_checks')[0][0] is certificate and ghost('permission_checks')[0][1] is self and ghost('permission_checks')[0][2] and len(ghost('budget_checks')) == 1 and ghost('budget_checks')[0][0] is self and ghost('budget_checks')[0][1])",
                  "what_is_signed_is_the_request_with_its_chain_length_reduced_below_this_issuer":
                  "implies(len(ghost('signed')) == 1 and len(ghost('self_issuer_calls')) == 0, len(ghost('chain_length_calls')) == 1 and ghost('chain_length_calls')[0][0] is certificate and ghost('chain_length_calls')[0][1] is self and len(ghost('set_issuer_calls')) == 1 and ghost('set_issuer_calls')[0][0] is ghost('chain_length_calls')[0][2] and ghost('set_issuer_calls')[0][1] is self and ghost('signed')[0][1] is ghost('set_issuer_calls')[0][2])",
                  "the_signed_certificate_is_what_is_returned_and_a_refused_request_comes_back_unsigned":
                  "(result is ghost('signed')[0][2]) if len(ghost('signed')) == 1 else (result is certificate)",
                  "at_most_one_signature_and_by_this_issuer": "len(ghost('signed')) <= 1 and implies(len(ghost('signed')) == 1, ghost('signed')[0][0] is self)"},
         cover=["len(ghost('signed')) == 1 and len(ghost('self_issuer_calls')) == 0", "len(ghost('signed')) == 0"],
         trusted=["OwnCertificate.set_chain_length_issue_permissions (the three-line wrapper re-boxing the result of the verified Certificate method) at the call site of issue_certificate: assumed", "OwnCertificate.set_issuer / set_issuer_as_self / sign_certificate at the call sites of issue_certificate: assumed to return some certificate (recorded in ghost logs); their bodies are not verified here"],
         **S)
