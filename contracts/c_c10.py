"""C10: CAM / VAM generation timing and triggers (arithmetic mode; one ghost clock value per check)."""
from pyvc.contracts import contract, T
from pyvc.values import TupleV, NONE
from pyvc import models as _m

CT = "flexstack.facilities.ca_basic_service.cam_transmission_management"
TPV = T.dict(_open=True, time=(T.str, "optional"), lat=(T.float(-90, 90), "optional"), lon=(T.float(-180, 180), "optional"),
             track=(T.float(0, 360), "optional"), speed=(T.float(0, 200), "optional"), altHAE=(T.float(-1000, 10000), "optional"),
             epx=(T.float(0, 1000), "optional"), epy=(T.float(0, 1000), "optional"), epv=(T.float(0, 1000), "optional"),
             epd=(T.float(0, 1000), "optional"))
VEH = T.rec(f"{CT}:VehicleData", station_id=T.int(0, 4294967295), station_type=T.int(0, 15), drive_direction=T.strs("forward", "backward", "unavailable"),
            vehicle_length=T.dict(vehicleLengthValue=T.int(0, 1023), vehicleLengthConfidenceIndication=T.strs("unavailable")),
            vehicle_width=T.int(0, 62), vehicle_role=T.int(0, 15), exterior_lights=T.bytes_n(1), special_vehicle_data=T.opt(T.opaque("object")))
CTM = T.obj(f"{CT}:CAMTransmissionManagement", logging=T.opaque("logger"), btp_router=T.opaque("btp_router"), vehicle_data=VEH,
            cam_coder=T.opaque("cam_coder"), ca_basic_service_ldm=T.opt(T.opaque("cam_ldm")), t_gen_cam=T.int(100, 1000),
            _n_gen_cam_counter=T.int(0, 2), _last_cam_time_ms=T.opt(T.int()), _last_cam_heading=T.opt(T.float()),
            _last_cam_lat=T.opt(T.float()), _last_cam_lon=T.opt(T.float()), _last_cam_speed=T.opt(T.float()),
            _cam_count=T.int(0), _last_lf_time_ms=T.opt(T.int()), _last_vlf_time_ms=T.opt(T.int()),
            _last_special_time_ms=T.opt(T.int()), _path_history=T.opaque("any_list"), _current_tpv=T.opt(TPV),
            _tpv_lock=T.lock, _active=T.bool, _timer=T.opt(T.opaque("timer")),
            last_cam_generation_delta_time=T.opt(T.rec(f"{CT}:GenerationDeltaTime")))


def _gen_ghost(e, st, env):
    return st.ghost_append("cams", TupleV([env["tpv"], env["now_ms"], env["condition"]]))


def h_btp(e, st, o, name, args, kwargs):
    e.used_assumptions.add("BTP router seen from a facility: btp_data_request records the request in a ghost log (verified under C01)")
    if name != "btp_data_request":
        raise _m.Unsupported(f"btp_router.{name}")
    yield st.ghost_append("btp_requests", args[0]), NONE


def h_coder(e, st, o, name, args, kwargs):
    e.used_assumptions.add("ASN.1 coder (asn1tools): encode returns some bytes or raises; decode is not modelled here")
    if name in ("encode", "encode_extension_container"):
        v, cs = e.sym_bytes(e.fresh("encoded"), 0, 4000)
        s1 = st
        for c in cs:
            s1 = s1.assume(c)
        log = "encoded" if name == "encode" else "ext_encoded"
        yield s1.ghost_append(log, args[-1] if name == "encode" else args[0]), v
        if name == "encode":     # encoding the constant empty extension containers is assumed not to fail
            yield st.ghost_append(log, args[-1]), _m.RaiseV(e.exc("Exception", "encode error"))
    else:
        raise _m.Unsupported(f"coder.{name}")


def h_ldm(e, st, o, name, args, kwargs):
    yield st.ghost_append("ldm_adds", args[0] if args else NONE), NONE


def setup(e):
    e.opaque_handlers.update({"btp_router": h_btp, "cam_coder": h_coder, "vam_coder": h_coder, "denm_coder": h_coder, "cam_ldm": h_ldm})


S = dict(mode="int", spec_module="spec_cam", props=["C10"], float_as_real=True, engine_setup=setup, frame_check=False)
C = f"{CT}:CAMTransmissionManagement"

contract(f"{CT}:_haversine_m", props=[], assumed=True, mode="int", spec_module="spec_cam",
         shapes={"lat1": T.float(), "lon1": T.float(), "lat2": T.float(), "lon2": T.float()},
         ensures={"distance": "result == uf('haversine_m', 'real', lat1, lon1, lat2, lon2)"},
         trusted=["_haversine_m: great-circle distance treated as an uninterpreted non-negative function of its arguments"])
contract(f"{C}._get_path_history", props=[], assumed=True, shapes={"self": CTM, "current_tpv": TPV}, returns=T.opaque("any_list"),
         mode="int", spec_module="spec_cam", ensures={},
         trusted=["_get_path_history seen from _generate_and_send_cam: returns some list (its element ranges are checked under C11)"])
contract(f"{C}._check_dynamics", shapes={"self": CTM, "tpv": TPV},
         ensures={"trigger_rule": "result == dynamics_changed(self, tpv)"},
         canary={"always": "result"}, **S)
contract(f"{C}._generate_and_send_cam", shapes={"self": CTM, "tpv": TPV, "now_ms": T.int(), "condition": T.int(1, 2)},
         modifies=["self.*"], ghost_effect=_gen_ghost, requires=["now() >= 0", "self._cam_count >= 0"], callsite_ensures=[],
         inline=[f"{C}._build_lf_container", f"{CT}:CooperativeAwarenessMessage.fullfill_with_tpv_data"],
         ensures={"one_encoding_attempt": "len(ghost('encoded')) >= 1",
                  "lf_container_iff_due": "('lowFrequencyContainer' in the_cam()['cam']['camParameters']) == (old(self._cam_count) == 0 or old(self._last_lf_time_ms) is None or now_ms - old(self._last_lf_time_ms) >= 500)",
                  "handed_to_btp_port_2001": "implies(len(ghost('btp_requests')) == 1, ghost('btp_requests')[0].destination_port == 2001 and ghost('btp_requests')[0].btp_type.value == 2)",
                  "state_updated_iff_sent": "(self._last_cam_time_ms == now_ms and self._cam_count == old(self._cam_count) + 1) if len(ghost('btp_requests')) == 1 else (self._cam_count == old(self._cam_count) and self._last_cam_time_ms == old(self._last_cam_time_ms))",
                  "lf_timestamp": "implies(len(ghost('btp_requests')) == 1, self._last_lf_time_ms == (now_ms if 'lowFrequencyContainer' in the_cam()['cam']['camParameters'] else old(self._last_lf_time_ms)))",
                  "generation_delta_time_of_the_report": "implies('time' in tpv, the_cam()['cam']['generationDeltaTime'] == gdt_of(uf_timestamp(tpv['time'])))"},
         **S)
contract(f"{C}._evaluate_and_maybe_send", shapes={"self": CTM}, modifies=["self.*"],
         requires=["now() >= 0"],
         ensures={"at_most_one_cam_per_check": "len(ghost('cams')) <= 1",
                  "generation_rule": "(len(ghost('cams')) == 1) == (old(self._current_tpv) is not None and (old(self._last_cam_time_ms) is None or (now_ms() - old(self._last_cam_time_ms) >= 100 and dynamics_changed_old(self)) or (now_ms() - old(self._last_cam_time_ms) >= old(self.t_gen_cam) and now_ms() - old(self._last_cam_time_ms) >= 100)))",
                  "never_closer_than_100ms": "implies(len(ghost('cams')) == 1 and old(self._last_cam_time_ms) is not None, now_ms() - old(self._last_cam_time_ms) >= 100)",
                  "uses_latest_report_and_clock": "implies(len(ghost('cams')) == 1, ghost('cams')[0][0] is old(self._current_tpv) and ghost('cams')[0][1] == now_ms())",
                  "condition_1_on_dynamics": "implies(len(ghost('cams')) == 1, (ghost('cams')[0][2] == 1) == (old(self._last_cam_time_ms) is None or dynamics_changed_old(self)))"},
         cover=["len(ghost('cams')) == 1", "len(ghost('cams')) == 0"], **S)

contract(f"{C}._should_include_lf", shapes={"self": CTM, "now_ms": T.int()},
         ensures={"first_or_500ms_after_last_lf": "result == (self._cam_count == 0 or self._last_lf_time_ms is None or now_ms - self._last_lf_time_ms >= 500)"},
         canary={"every_cam": "result"}, **S)
contract(f"{C}._update_send_state",
         shapes={"self": CTM, "tpv": TPV, "now_ms": T.int(), "elapsed_ms": T.int(0), "condition": T.int(1, 2),
                 "include_lf": T.bool, "include_special": T.bool, "include_vlf": T.bool},
         modifies=["self.*"], requires=["now() >= 0"],
         ensures={"t_gen_cam_bounds": "100 <= self.t_gen_cam <= 1000",
                  "t_gen_cam_rule": "self.t_gen_cam == (1000 if condition != 1 or old(self._n_gen_cam_counter) + 1 >= 3 else max(100, min(1000, elapsed_ms)))",
                  "last_cam_time": "self._last_cam_time_ms == now_ms",
                  "lf_timestamp_iff_included": "self._last_lf_time_ms == (now_ms if include_lf else old(self._last_lf_time_ms))",
                  "count": "self._cam_count == old(self._cam_count) + 1",
                  "reference_heading": "self._last_cam_heading == (tpv['track'] if 'track' in tpv else old(self._last_cam_heading))",
                  "reference_speed": "self._last_cam_speed == (tpv['speed'] if 'speed' in tpv else old(self._last_cam_speed))",
                  "reference_position": "implies('lat' in tpv and 'lon' in tpv, self._last_cam_lat == tpv['lat'] and self._last_cam_lon == tpv['lon'])"},
         **S)
contract(f"{CT}:GenerationDeltaTime.from_timestamp", shapes={"utc_timestamp_in_seconds": T.float(1072915200, 10 ** 11)},
         ensures={"its_ms_mod_65536": "result.msec == gdt_of(utc_timestamp_in_seconds)", "range": "0 <= result.msec <= 65535"}, **S)
contract(f"{C}.stop", shapes={"self": CTM}, modifies=["self._active", "self._timer"],
         ensures={"inactive": "not self._active and self._timer is None",
                  "pending_check_cancelled": "implies(old(self._timer) is not None, len(ghost('timers_cancelled')) == 1)"}, **S)
contract(f"{C}._check_cam_conditions", shapes={"self": CTM}, modifies=["self.*"], requires=["now() >= 0"],
         inline=[f"{C}._schedule_next_check"],
         ensures={"nothing_after_stop": "implies(not old(self._active), len(ghost('cams')) == 0 and len(ghost('timers_started')) == 0)",
                  "rearmed_while_active": "implies(old(self._active) and self._active, len(ghost('timers_started')) == 1 and timer_delay(ghost('timers_started')[0]) * 1000 == 100)"},
         **S)
contract(f"{C}.location_service_callback", shapes={"self": CTM, "tpv": TPV}, modifies=["self._current_tpv"],
         ensures={"latest_report_kept": "self._current_tpv is tpv"}, **S)

# ---------------------------------------------------------------- VAM generation (TS 103 300-3 clause 6)
VT = "flexstack.facilities.vru_awareness_service.vam_transmission_management"
LC = "flexstack.facilities.local_dynamic_map.ldm_classes"
VTPV = T.dict(_open=True, time=T.str, lat=T.float(-90, 90), lon=T.float(-180, 180), speed=T.float(0, 200),
              track=(T.float(0, 360), "optional"))
VTM = T.obj(f"{VT}:VAMTransmissionManagement", logging=T.opaque("logger"), btp_router=T.opaque("btp_router"),
            device_data_provider=T.opaque("device_data"), vru_basic_service_ldm=T.opt(T.opaque("cam_ldm")),
            vam_coder=T.opaque("vam_coder"), clustering_manager=T.opt(T.opaque("vbs_manager")), t_genvam=T.int(100, 5000),
            n_genvam=T.int(), last_vam_generation_delta_time=T.opt(T.rec(f"{CT}:GenerationDeltaTime", msec=T.int(0, 65535))),
            last_sent_position=T.tuple(T.float(), T.float()), last_vam_info_lock=T.lock, last_vam_speed=T.float(),
            last_vam_heading=T.float(), last_lf_vam_time=T.opt(T.float()), is_first_vam=T.bool)


def h_vbs(e, st, o, name, args, kwargs):
    import z3
    if name == "should_transmit_vam":
        b = z3.Bool(e.fresh("should_transmit"))
        yield st.ghost_append("suppression_asked", b), b
    elif name in ("get_cluster_information_container", "get_cluster_operation_container"):
        e.used_assumptions.add("clustering manager seen from the VAM sender: each container getter answers None or some container (their content is C18's / C11's)")
        log = "info_container" if "information" in name else "op_container"
        yield st.ghost_append(log, NONE), NONE
        c = _m.Opaque("object", _m._ident(e, "object", log))
        yield st.ghost_append(log, c), c
    else:
        raise _m.Unsupported(f"clustering manager .{name}")


def _send_ghost(e, st, env):
    return st.ghost_append("vams", env["vam"])


def h_vam_coder(e, st, o, name, args, kwargs):
    e.used_assumptions.add("VAM coder seen from the VAM sender: encode returns some bytes (that the values built fit the ASN.1 constraints is C11's harness obligation)")
    for s1, v in h_coder(e, st, o, name, args, kwargs):
        if not isinstance(v, _m.RaiseV):
            yield s1, v


def setup_vam(e):
    setup(e)
    e.opaque_handlers["vbs_manager"] = h_vbs
    e.opaque_handlers["vam_coder"] = h_vam_coder


SV = dict(S, engine_setup=setup_vam)
contract(f"{VT}:VAMMessage.fullfill_with_device_data", props=[], assumed=True, mode="int", spec_module="spec_cam",
         shapes={"self": T.rec(f"{VT}:VAMMessage", cam=T.opaque("object"), vam=T.opaque("object")), "device_data_provider": T.opaque("device_data")},
         ensures={}, trusted=["VAMMessage.fullfill_* at the call site of location_service_callback: message content is C11's concern"])
contract(f"{CT}:CooperativeAwarenessMessage.fullfill_with_tpv_data", props=[], assumed=True, mode="int", spec_module="spec_cam",
         shapes={"self": T.rec(f"{VT}:VAMMessage", cam=T.opaque("object"), vam=T.opaque("object")), "tpv": VTPV}, ensures={})
contract(f"{LC}:Utils.euclidian_distance", props=[], assumed=True, mode="int", spec_module="spec_cam",
         shapes={"point1": T.tuple(T.float(), T.float()), "point2": T.tuple(T.float(), T.float())},
         ensures={"uf": "result == uf('euclid', 'real', point1[0], point1[1], point2[0], point2[1])"})
_P = "ghost('encoded')[0]['vam']['vamParameters']"
_VAMFULL = T.rec(f"{VT}:VAMMessage", cam=T.opaque("object"), vam=T.dict(_open=True, header=T.dict(_open=True, stationId=T.int(0, 4294967295)), vam=T.dict(
    _open=True, generationDeltaTime=T.int(0, 65535), vamParameters=T.dict(
        basicContainer=T.dict(_open=True, referencePosition=T.dict(_open=True, latitude=T.int(-900000000, 900000001), longitude=T.int(-1800000000, 1800000001))),
        vruHighFrequencyContainer=T.dict(_open=True, speed=T.dict(_open=True, speedValue=T.int(0, 16383)), heading=T.dict(_open=True, value=T.int(0, 3601)))))))
contract(f"{VT}:VAMTransmissionManagement.send_next_vam", props=["C18", "C11"], shapes={"self": VTM, "vam": _VAMFULL},
         modifies=["self.last_vam_generation_delta_time", "self.last_sent_position", "self.last_vam_speed", "self.last_vam_heading", "self.is_first_vam", "self.last_lf_vam_time"],
         ghost_effect=_send_ghost, callsite_ensures=[], inline=[f"{VT}:VAMTransmissionManagement._attach_lf_container_if_due"],
         ensures={"the_state_machine_is_asked_for_both_cluster_containers_for_every_vam":
                  "implies(self.clustering_manager is not None, len(ghost('info_container')) == 1 and len(ghost('op_container')) == 1)",
                  "cluster_operation_container_supplied_by_the_state_machine_is_in_the_encoded_vam":
                  "implies(self.clustering_manager is not None and ghost('op_container')[0] is not None, 'vruClusterOperationContainer' in " + _P + " and " + _P + "['vruClusterOperationContainer'] is ghost('op_container')[0])",
                  "cluster_information_container_supplied_by_the_state_machine_is_in_the_encoded_vam":
                  "implies(self.clustering_manager is not None and ghost('info_container')[0] is not None, 'vruClusterInformationContainer' in " + _P + " and " + _P + "['vruClusterInformationContainer'] is ghost('info_container')[0])",
                  "no_cluster_container_of_its_own_making":
                  "implies(self.clustering_manager is None or ghost('op_container')[0] is None, 'vruClusterOperationContainer' not in " + _P + ")",
                  "the_vam_given_is_the_vam_encoded_and_handed_to_btp_port_2018":
                  "ghost('encoded')[0] is vam.vam and len(ghost('btp_requests')) == 1 and ghost('btp_requests')[0].destination_port == 2018"},
         cover=["self.clustering_manager is not None and ghost('op_container')[0] is not None and ghost('info_container')[0] is not None"],
         **{k: v for k, v in SV.items() if k != "props"})
contract(f"{VT}:VAMTransmissionManagement.location_service_callback", shapes={"self": VTM, "tpv": VTPV},
         modifies=["self.*"], props=["C10", "C11"],
         ensures={"at_most_one_vam_per_report": "len(ghost('vams')) <= 1",
                  "first_report_sends": "implies(old(self.last_vam_generation_delta_time) is None and not suppressed(), len(ghost('vams')) == 1)",
                  "suppressed_sends_nothing": "implies(suppressed(), len(ghost('vams')) == 0)",
                  "at_most_t_genvam_max_apart": "implies(old(self.last_vam_generation_delta_time) is not None and not suppressed() and report_gap_ms(self, tpv) >= 5000, len(ghost('vams')) == 1)",
                  "at_least_t_genvam_min_apart": "implies(len(ghost('vams')) == 1 and old(self.last_vam_generation_delta_time) is not None, report_gap_ms(self, tpv) >= 100)"},
         inline=[f"{CT}:GenerationDeltaTime.from_timestamp", f"{CT}:GenerationDeltaTime.__sub__"],
         **{k: v for k, v in SV.items() if k != "props"})


# ------------------------------------------------------------------------------------------- VAM low-frequency container
_VAMMSG = T.rec(f"{VT}:VAMMessage", cam=T.opaque("object"), vam=T.dict(_open=True, vam=T.dict(_open=True, vamParameters=T.dict(
    basicContainer=T.opaque("object"), vruHighFrequencyContainer=T.opaque("object"),
    vruClusterOperationContainer=(T.opaque("object"), "optional"), vruClusterInformationContainer=(T.opaque("object"), "optional")))))
_LF = "('vruLowFrequencyContainer' in vam.vam['vam']['vamParameters'])"
contract(f"{VT}:VAMTransmissionManagement._attach_lf_container_if_due", shapes={"self": VTM, "vam": _VAMMSG},
         modifies=["self.last_lf_vam_time"], props=["C10", "C11"],
         ensures={"low_frequency_container_iff_first_vam_or_2s_since_the_last_one_that_carried_it_or_cluster_operation":
                  _LF + " == (old(self.is_first_vam) or old(self.last_lf_vam_time) is None or (now() - old(self.last_lf_vam_time)) * 1000 >= 2000 or 'vruClusterOperationContainer' in vam.vam['vam']['vamParameters'])",
                  "inclusion_time_recorded_only_when_the_container_is_included": "self.last_lf_vam_time == (now() if " + _LF + " else old(self.last_lf_vam_time))"},
         cover=[_LF, "not " + _LF], **{k: v for k, v in SV.items() if k != "props"})
