"""C12 / C16: DictionaryDataBase as a map id -> record; one arbitrary other identifier K is tracked to state
non-interference ("no operation on one object changes another")."""
from pyvc.contracts import contract, T
from pyvc import models as _m

DB = "flexstack.facilities.local_dynamic_map.dictionary_database"
REC = T.dict(_open=True, applicationId=T.int(), timeStamp=T.int(), dataObject=T.opaque("object"))
DBS = T.obj(f"{DB}:DictionaryDataBase", database=T.keymap("store", T.int(), REC), _lock=T.opaque("rlock"), _next_id=T.int(0))


def setup(e):
    e.opaque_handlers["store"] = _m.make_keyed_map_handler(_m._fresh_any)


S = dict(mode="int", spec_module="spec_ldm", props=["C12", "C16", "C13"], engine_setup=setup, requires=["db_wf(self)"])
D = f"{DB}:DictionaryDataBase"
KEEP = "map_has(self.database, old(K(self))) == old(map_has(self.database, K(self))) and implies(old(map_has(self.database, K(self))), map_get(self.database, old(K(self))) is old(map_get(self.database, K(self))))"

contract(f"{D}.insert", shapes={"self": DBS, "data": REC}, modifies=["self.database", "self._next_id"],
         ensures={"fresh_identifier": "result == old(self._next_id) and self._next_id == result + 1",
                  "never_an_identifier_in_use": "implies(old(map_has(self.database, K(self))), result != old(K(self)))",
                  "stored": "map_has(self.database, result) and map_get(self.database, result) is data",
                  "other_objects_untouched": "implies(old(K(self)) != result, " + KEEP + ")", "well_formed": "db_wf(self)"},
         canary={"reuses": "result == old(K(self))"}, **S)
contract(f"{D}.get", shapes={"self": DBS, "index": T.int()},
         ensures={"lookup": "implies(index == K(self), (result is not None) == map_has(self.database, K(self)) and implies(result is not None, result is map_get(self.database, K(self))))"},
         **S)
contract(f"{D}.update", shapes={"self": DBS, "data": REC, "index": T.int()}, modifies=["self.database"],
         ensures={"replaced": "map_has(self.database, index) and map_get(self.database, index) is data",
                  "other_objects_untouched": "implies(index != old(K(self)), " + KEEP + ")", "next_id_untouched": "self._next_id == old(self._next_id)"},
         **S)
contract(f"{D}.exists", shapes={"self": DBS, "field_name": T.const("dataObjectID"), "data_object_id": T.int()},
         requires=S["requires"] + ["field_name == 'dataObjectID'"],
         ensures={"by_identifier": "implies(data_object_id == K(self), result == map_has(self.database, K(self)))"}, **{k: v for k, v in S.items() if k != "requires"})
contract(f"{D}.delete", shapes={"self": DBS}, modifies=["self.database", "self._next_id"], frame_check=False,
         ensures={"returns_true": "result"}, **{k: v for k, v in S.items() if k != "requires"})
