"""C12: IF.LDM.3 (providers) over the real LDMService / LDMMaintenance / DictionaryDataBase object graph."""
from pyvc.contracts import contract, T
from .c_c12_db import DBS, REC, setup as _dbsetup, DB

L = "flexstack.facilities.local_dynamic_map"
MAINT = T.obj(f"{L}.ldm_maintenance:LDMMaintenance", logging=T.opaque("logger"), data_containers=DBS,
              area_of_maintenance=T.opaque("object"), new_data_recieved_flag=T.int())
SERVICE = T.obj(f"{L}.ldm_service:LDMService", ldm_maintenance=MAINT, data_provider_its_aid=T.symset(), data_consumer_its_aid=T.symset(),
                subscriptions=T.opaque("any_list"), last_checked_subscriptions_time=T.opaque("nearby_map"), _lock=T.opaque("rlock"))
IF3 = T.obj(f"{L}.if_ldm_3:InterfaceLDM3", logging=T.opaque("logger"), ldm_service=SERVICE)
ADDREQ = T.rec(f"{L}.ldm_classes:AddDataProviderReq", application_id=T.int(), timestamp=T.opaque("object"), location=T.opaque("object"),
               data_object=T.opaque("object"), time_validity=T.opaque("object"))
S = dict(mode="int", spec_module="spec_ldm", props=["C12"], engine_setup=_dbsetup, frame_check=False)
SV = f"{L}.ldm_service:LDMService"
I3 = f"{L}.if_ldm_3:InterfaceLDM3"
WF = ["db_wf(self.ldm_service.ldm_maintenance.data_containers)"]

for _kind in ("provider", "consumer"):
    contract(f"{SV}.add_data_{_kind}_its_aid", shapes={"self": SERVICE, "its_aid": T.int()}, modifies=[f"self.data_{_kind}_its_aid"],
             ensures={"registered": f"set_has(self.data_{_kind}_its_aid, its_aid)",
                      "others_untouched": f"forall(lambda x: implies(x != its_aid, set_has(self.data_{_kind}_its_aid, x) == old(set_has(self.data_{_kind}_its_aid, x))))"}, **S)
    contract(f"{SV}.del_data_{_kind}_its_aid", shapes={"self": SERVICE, "its_aid": T.int()}, modifies=[f"self.data_{_kind}_its_aid"],
             ensures={"deregistered": f"not set_has(self.data_{_kind}_its_aid, its_aid)",
                      "others_untouched": f"forall(lambda x: implies(x != its_aid, set_has(self.data_{_kind}_its_aid, x) == old(set_has(self.data_{_kind}_its_aid, x))))"}, **S)
    contract(f"{SV}.get_data_{_kind}_its_aid", shapes={"self": SERVICE}, returns=T.symset(),
             ensures={"snapshot": f"forall(lambda x: set_has(result, x) == set_has(self.data_{_kind}_its_aid, x))"}, **S)

contract(f"{L}.ldm_classes:AddDataProviderReq.to_dict", props=[], assumed=True, mode="int", spec_module="spec_ldm", shapes={"self": ADDREQ}, returns=REC,
         ensures={"content": "result['dataObject'] is self.data_object and result['applicationId'] == self.application_id"},
         trusted=["AddDataProviderReq.to_dict: assumed to produce the record of its fields (the literal is too large for the executor; its orientation field copies the minor confidence - noted in DESIGN)"])
contract(f"{I3}.add_provider_data", shapes={"self": IF3, "data_provider": ADDREQ}, requires=WF,
         modifies=["self.ldm_service.ldm_maintenance.data_containers.database", "self.ldm_service.ldm_maintenance.data_containers._next_id", "self.ldm_service.ldm_maintenance.new_data_recieved_flag"],
         inline=[f"{SV}.add_provider_data", f"{L}.ldm_maintenance:LDMMaintenance.add_provider_data", f"{DB}:DictionaryDataBase.insert"],
         ensures={"refused_without_effect": "implies(not old(set_has(self.ldm_service.data_provider_its_aid, data_provider.application_id)), result.data_object_id == -1 and db_same(self))",
                  "registered_provider_gets_fresh_identifier": "implies(old(set_has(self.ldm_service.data_provider_its_aid, data_provider.application_id)), result.data_object_id == old(self.ldm_service.ldm_maintenance.data_containers._next_id) and map_has(db(self).database, result.data_object_id) and map_get(db(self).database, result.data_object_id)['dataObject'] is data_provider.data_object)",
                  "other_objects_untouched": "implies(old(K(db(self))) != result.data_object_id, map_has(db(self).database, old(K(db(self)))) == old(map_has(db(self).database, K(db(self)))))",
                  "registrations_untouched": "forall(lambda x: set_has(self.ldm_service.data_provider_its_aid, x) == old(set_has(self.ldm_service.data_provider_its_aid, x)))",
                  "well_formed": "db_wf(db(self))"}, **S)
DELREQ = T.rec(f"{L}.ldm_classes:DeleteDataProviderReq")
contract(f"{I3}.delete_provider_data", shapes={"self": IF3, "data_provider": DELREQ}, requires=WF,
         modifies=["self.ldm_service.ldm_maintenance.data_containers.database", "self.ldm_service.data_provider_its_aid"],
         ensures={"object_removed_on_success": "implies(data_provider.data_object_id == old(K(db(self))) and result.result.value == 0, not map_has(db(self).database, old(K(db(self)))))",
                  "registrations_untouched": "forall(lambda x: set_has(self.ldm_service.data_provider_its_aid, x) == old(set_has(self.ldm_service.data_provider_its_aid, x)))",
                  "unknown_identifier_fails_without_effect": "implies(data_provider.data_object_id == old(K(db(self))) and not old(map_has(db(self).database, K(db(self)))), result.result.value != 0)"},
         **S)

# ------------------------------------------------------------------------------------------- update
MQ = f"{L}.ldm_maintenance:LDMMaintenance"
MSGOBJ = T.dict(cam=(T.opaque("object"), "optional"), denm=(T.opaque("object"), "optional"))
contract(f"{MQ}.update_provider_data", shapes={"self": MAINT, "data_object_id": T.int(), "data_object": MSGOBJ},
         requires=["db_wf(self.data_containers)", "data_object_id == K(self.data_containers)"],
         modifies=["self.data_containers.database"], inline=[f"{DB}:DictionaryDataBase.update"],
         ensures={"an_update_replaces_only_the_content_of_the_stored_record": "implies(old(map_has(self.data_containers.database, data_object_id)), map_has(self.data_containers.database, data_object_id) and map_get(self.data_containers.database, data_object_id)['dataObject'] is data_object and map_get(self.data_containers.database, data_object_id)['applicationId'] == old(map_get(self.data_containers.database, data_object_id)['applicationId']) and map_get(self.data_containers.database, data_object_id)['timeStamp'] == old(map_get(self.data_containers.database, data_object_id)['timeStamp']))"},
         **S)
contract(f"{SV}.update_provider_data", shapes={"self": SERVICE, "data_object_id": T.int(), "data_object": T.opaque("object")},
         requires=["db_wf(self.ldm_maintenance.data_containers)", "data_object_id == K(self.ldm_maintenance.data_containers)"],
         modifies=["self.ldm_maintenance.data_containers.database"], inline=[f"{MQ}.update_provider_data", f"{DB}:DictionaryDataBase.update"],
         ensures={"reports_the_identifier_of_the_object_it_updated": "implies(old(map_has(self.ldm_maintenance.data_containers.database, data_object_id)), result == data_object_id)"},
         **S)
