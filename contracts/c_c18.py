"""C18: VRU clustering state machine - invariant preserved by every public operation, suppression and timed exits."""
from pyvc.contracts import contract, T

VC = "flexstack.facilities.vru_awareness_service.vru_clustering"
# a set of profile names over the four-name universe of the standard, as membership flags
PROFILES = T.dict(pedestrian=(T.none, "optional"), bicyclistAndLightVruVehicle=(T.none, "optional"),
                  motorcyclist=(T.none, "optional"), animal=(T.none, "optional"))
CLUSTER = T.obj(f"{VC}:_ClusterState", cluster_id=T.int(), cardinality=T.int(), profiles=PROFILES,
                radius=T.float(), breakup_started=T.opt(T.float()),
                breakup_reason=T.opt(T.enum(f"{VC}:ClusterBreakupReason")), pending_members=T.symset())
MGR = T.obj(f"{VC}:VBSClusteringManager", _own_station_id=T.int(0), _own_vru_profile=T.strs("pedestrian", "bicyclistAndLightVruVehicle", "motorcyclist", "animal"),
            _time_fn=T.opaque("time_fn"), _state=T.enum(f"{VC}:VBSState"), _cluster=T.opt(CLUSTER),
            _joined_cluster_id=T.opt(T.int()), _leader_station_id=T.opt(T.int()), _last_leader_vam_time=T.opt(T.float()),
            _join_substate=T.enum(f"{VC}:_JoinSubstate"), _join_target_cluster_id=T.opt(T.int()),
            _join_started=T.opt(T.float()), _join_leave_reason=T.opt(T.enum(f"{VC}:ClusterLeaveReason")),
            _join_leave_started=T.opt(T.float()), _leave_substate=T.enum(f"{VC}:_LeaveSubstate"),
            _leave_reason=T.opt(T.enum(f"{VC}:ClusterLeaveReason")), _leave_cluster_id=T.opt(T.int()),
            _leave_started=T.opt(T.float()), _nearby_vrus=T.opaque("nearby_map"), _nearby_clusters=T.opaque("nearby_map"),
            _seen_cluster_ids=T.opaque("nearby_map"), _lock=T.opaque("rlock"))
S = dict(mode="int", spec_module="spec_vbs", props=["C18"], float_as_real=True, frame_check=False,
         requires=["inv(self)"])
INV = {"invariant_kept": "inv(self)"}

contract(f"{VC}:VBSClusteringManager.set_vru_role_on", shapes={"self": MGR}, modifies=["self._state"], ensures=INV, **S)
contract(f"{VC}:VBSClusteringManager.set_vru_role_off", shapes={"self": MGR}, modifies=["self.*"],
         ensures=dict(INV, idle="self._state is VBSState.VRU_IDLE"), **S)
contract(f"{VC}:VBSClusteringManager.try_create_cluster", shapes={"self": MGR, "own_lat": T.float(), "own_lon": T.float()},
         modifies=["self.*"],
         ensures=dict(INV, created_iff_true="result == (is_leader(self) and not old(is_leader(self)))",
                      only_from_standalone="implies(result, old(self._state is VBSState.VRU_ACTIVE_STANDALONE))"), **S)
contract(f"{VC}:VBSClusteringManager.initiate_join", shapes={"self": MGR, "cluster_id": T.int()}, modifies=["self.*"],
         ensures=dict(INV, starts_notification="implies(result, self._join_substate is _JoinSubstate.NOTIFY and self._join_started == now() and self._join_target_cluster_id == cluster_id)",
                      refused_unchanged="implies(not result, self._join_substate == old(self._join_substate) and self._state == old(self._state))"), **S)
contract(f"{VC}:VBSClusteringManager.cancel_join", shapes={"self": MGR}, modifies=["self.*"], ensures=INV, **S)
contract(f"{VC}:VBSClusteringManager.confirm_join_failed", shapes={"self": MGR}, modifies=["self.*"], ensures=INV, **S)
contract(f"{VC}:VBSClusteringManager.trigger_leave_cluster", shapes={"self": MGR, "reason": T.enum(f"{VC}:ClusterLeaveReason")},
         modifies=["self.*"], inline=[f"{VC}:VBSClusteringManager.cancel_join"],
         ensures=dict(INV, leave_notification_names_the_cluster_that_was_left="implies(old(is_passive(self)) and self._state is VBSState.VRU_ACTIVE_STANDALONE, self._leave_substate is _LeaveSubstate.NOTIFY and self._leave_cluster_id == old(self._joined_cluster_id))", passive_member_resumes="implies(old(is_passive(self)), self._state is VBSState.VRU_ACTIVE_STANDALONE and transmits(self) and self._leave_started == now())"), **dict(S, props=["C18", "C11"]))
contract(f"{VC}:VBSClusteringManager.trigger_breakup_cluster", shapes={"self": MGR, "reason": T.enum(f"{VC}:ClusterBreakupReason")},
         modifies=["self.*"],
         ensures=dict(INV, warning_phase_starts="implies(result, is_leader(self) and self._cluster.breakup_started == now())"), **S)
contract(f"{VC}:VBSClusteringManager.should_transmit_vam", shapes={"self": MGR},
         ensures={"suppressed_only_while_passive_or_idle": "implies(not result, self._state is VBSState.VRU_IDLE or is_passive(self))",
                  "definition": "result == transmits(self)"}, **S)
contract(f"{VC}:VBSClusteringManager.update",
         shapes={"self": MGR, "own_lat": T.float(), "own_lon": T.float(), "own_speed": T.float(), "own_heading": T.float()},
         modifies=["self.*"], inline=[f"{VC}:VBSClusteringManager.confirm_join_failed"],
         ensures=dict(INV, leave_notification_names_the_cluster_that_was_left="implies(old(is_passive(self)) and self._state is VBSState.VRU_ACTIVE_STANDALONE, self._leave_substate is _LeaveSubstate.NOTIFY and self._leave_cluster_id == old(self._joined_cluster_id))", 
                      leader_lost_resumes_transmission="implies(old(is_passive(self)) and now() - old(self._last_leader_vam_time) >= CLUSTER_CONTINUITY_S, self._state is VBSState.VRU_ACTIVE_STANDALONE and transmits(self))",
                      passive_kept_while_leader_heard="implies(old(is_passive(self)) and now() - old(self._last_leader_vam_time) < CLUSTER_CONTINUITY_S, is_passive(self))",
                      breakup_after_warning="implies(old(is_leader(self)) and old(self._cluster.breakup_started) is not None and now() - old(self._cluster.breakup_started) >= BREAKUP_WARNING_S, self._state is VBSState.VRU_ACTIVE_STANDALONE and transmits(self))",
                      breakup_warning_lasts_3s="implies(old(is_leader(self)) and (old(self._cluster.breakup_started) is None or now() - old(self._cluster.breakup_started) < BREAKUP_WARNING_S), is_leader(self))",
                      join_notification_lasts_3s="implies(old(self._state is VBSState.VRU_ACTIVE_STANDALONE) and old(self._join_substate is _JoinSubstate.NOTIFY), (self._join_substate is _JoinSubstate.WAITING) == (now() - old(self._join_started) >= JOIN_NOTIFICATION_S))",
                      join_wait_starts_when_notification_ends="implies(old(self._state is VBSState.VRU_ACTIVE_STANDALONE) and old(self._join_substate is _JoinSubstate.NOTIFY) and self._join_substate is _JoinSubstate.WAITING, self._join_started == now())",
                      join_wait_fails_after_half_second="implies(old(self._state is VBSState.VRU_ACTIVE_STANDALONE) and old(self._join_substate is _JoinSubstate.WAITING), (self._join_substate is _JoinSubstate.FAILED) == (now() - old(self._join_started) >= JOIN_SUCCESS_S))",
                      leave_notification_lasts_1s="implies(old(self._state is VBSState.VRU_ACTIVE_STANDALONE) and old(self._leave_substate is _LeaveSubstate.NOTIFY), (self._leave_substate is _LeaveSubstate.NONE) == (now() - old(self._leave_started) >= LEAVE_NOTIFICATION_S))",
                      never_silenced_by_update="implies(old(transmits(self)) and not old(is_passive(self)), transmits(self))"), **dict(S, props=["C18", "C11"]))

# ---------------------------------------------------------------- received VAMs (decoder schema: CHOICEs are tuples)
BBOX = T.oneof(T.tuple(T.const("circular"), T.dict(radius=(T.int(0, 4095), "optional"))),
               T.tuple(T.const("rectangular"), T.dict(_open=True)))
VAM = T.dict(
    header=T.dict(_open=True, stationId=T.int(0, 4294967295)),
    vam=T.dict(_open=True, vamParameters=T.dict(
        _open=True,
        basicContainer=T.dict(_open=True, referencePosition=T.dict(_open=True, latitude=T.int(-900000000, 900000001), longitude=T.int(-1800000000, 1800000001))),
        vruHighFrequencyContainer=(T.dict(_open=True, speed=(T.dict(_open=True, speedValue=T.int(0, 16383)), "optional"),
                                          heading=(T.dict(_open=True, value=T.int(0, 3601)), "optional")), "optional"),
        vruClusterInformationContainer=(T.dict(vruClusterInformation=T.dict(
            _open=True, clusterId=(T.int(0, 255), "optional"), clusterCardinalitySize=(T.int(0, 255), "optional"),
            clusterBoundingBoxShape=(BBOX, "optional"))), "optional"),
        vruClusterOperationContainer=(T.dict(
            clusterJoinInfo=(T.dict(_open=True, clusterId=T.int(0, 255)), "optional"),
            clusterLeaveInfo=(T.dict(_open=True, clusterId=T.int(0, 255)), "optional"),
            clusterBreakupInfo=(T.dict(_open=True, breakupTime=T.int(0, 127), clusterBreakupReason=T.strs("notProvided", "clusteringPurposeCompleted", "leaderMovedOutOfClusterBoundingBox", "joiningAnotherCluster", "enteringLowRiskAreaBasedOnMaps", "receptionOfCpmContainingCluster")), "optional")), "optional"))))
contract(f"{VC}:VBSClusteringManager.on_received_vam", shapes={"self": MGR, "vam": VAM}, modifies=["self.*"],
         ensures=dict(INV, leave_notification_names_the_cluster_that_was_left="implies(old(is_passive(self)) and self._state is VBSState.VRU_ACTIVE_STANDALONE, self._leave_substate is _LeaveSubstate.NOTIFY and self._leave_cluster_id == old(self._joined_cluster_id))", 
                      join_completes_on_leader_vam="implies(old(self._state is VBSState.VRU_ACTIVE_STANDALONE) and old(self._join_substate is _JoinSubstate.WAITING) and advertises_cluster(vam, old(self._join_target_cluster_id)) and not has_breakup_info(vam), is_passive(self) and self._joined_cluster_id == old(self._join_target_cluster_id) and self._leader_station_id == vam['header']['stationId'])",
                      leader_vam_rearms_timer="implies(old(is_passive(self)) and is_passive(self) and vam['header']['stationId'] == old(self._leader_station_id), self._last_leader_vam_time == now())",
                      only_the_leader_rearms_the_timer="implies(old(is_passive(self)) and is_passive(self) and vam['header']['stationId'] != old(self._leader_station_id), self._last_leader_vam_time == old(self._last_leader_vam_time))",
                      breakup_by_leader_resumes="implies(old(is_passive(self)) and vam['header']['stationId'] == old(self._leader_station_id) and announces_breakup(vam), self._state is VBSState.VRU_ACTIVE_STANDALONE and transmits(self))"),
         **dict(S, props=["C18", "C11"]))

contract(f"{VC}:VBSClusteringManager.get_cluster_information_container", shapes={"self": MGR},
         props=["C18", "C11"], mode="int", spec_module="spec_vbs", float_as_real=True, frame_check=False, requires=["inv(self)"],
         ensures={"only_leaders_advertise": "(result is not None) == is_leader(self)",
                  "cluster_id_and_cardinality": "implies(result is not None, result['vruClusterInformation']['clusterId'] == self._cluster.cluster_id and result['vruClusterInformation']['clusterCardinalitySize'] == self._cluster.cardinality)",
                  "bounding_box_is_an_asn1_choice": "implies(result is not None, isinstance(result['vruClusterInformation']['clusterBoundingBoxShape'], tuple))"})

contract(f"{VC}:VBSClusteringManager._encode_cluster_profiles", props=["C18", "C11"], mode="bv", spec_module="spec_vbs",
         shapes={"profiles": PROFILES},
         ensures={"bit_string": "result == bytes([(128 if 'pedestrian' in profiles else 0) + (64 if 'bicyclistAndLightVruVehicle' in profiles else 0) + (32 if 'motorcyclist' in profiles else 0) + (16 if 'animal' in profiles else 0)])",
                  "one_octet": "len(result) == 1"})

contract(f"{VC}:VBSClusteringManager.get_cluster_operation_container", shapes={"self": MGR},
         props=["C18", "C11"], mode="int", spec_module="spec_vbs", float_as_real=True, frame_check=False, requires=["inv(self)"],
         inline=[f"{VC}:VBSClusteringManager._standalone_operation_container", f"{VC}:VBSClusteringManager._passive_operation_container",
                 f"{VC}:VBSClusteringManager._leader_operation_container"],
         ensures={"join_time_inside_delta_time_quarter_second": "implies(result is not None and 'clusterJoinInfo' in result, 1 <= result['clusterJoinInfo']['joinTime'] <= 255)",
                  "breakup_time_inside_delta_time_quarter_second": "implies(result is not None and 'clusterBreakupInfo' in result, 1 <= result['clusterBreakupInfo']['breakupTime'] <= 255)"},
         cover=["result is not None and 'clusterJoinInfo' in result", "result is not None and 'clusterBreakupInfo' in result"])
